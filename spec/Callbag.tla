------------------------------- MODULE Callbag -------------------------------
(***************************************************************************)
(* Detailed model of callbag-rs (teohhanhui/callbag-rs @ pinned commit).   *)
(*                                                                         *)
(* Every closure of every source / operator / sink of the crate is a       *)
(* branch of procedure Deliver; a PlusCal `call` is a Rust function call,  *)
(* so re-entrancy (a Pull arriving inside the Data delivery that is still  *)
(* on the stack) is modelled as it happens in the code.  Per-subscription  *)
(* state (what the Rust code creates inside its Handshake branch) lives in *)
(* st[node][sub]; state that outlives a subscription (share) in nd[node].  *)
(*                                                                         *)
(* The environment (puppet sources, probe sinks, mock Nurse+Timer) is the  *)
(* conformant, maximally nondeterministic environment of DESIGN.md §3.2;   *)
(* every choice it makes is appended to `script`, every call crossing the  *)
(* boundary between environment and crate code is appended to `obs`.       *)
(* The same environment is implemented by /verif/harness (Rust), which     *)
(* drives the real closures.                                               *)
(*                                                                         *)
(* The scenarios (graph of operators, bounds, peer modes) are the constant  *)
(* CFGS, generated from the same JSON that the harness reads; the variable  *)
(* ci picks one of them in the initial state.                              *)
(*                                                                         *)
(* Scenario flags: maxData / maxTop / maxPull (budgets), allowFail (puppets *)
(* may fail), sinkErr (sinks may dispose with Error), c14 (one Pull per     *)
(* message received), burst (emissions inside the greeting), reentrant     *)
(* (the sink makes an upstream emit/end/fail from inside its handler),      *)
(* maxReact (actions per handler), cross (a sink makes the other sink act   *)
(* from inside its handler, C13), passive + thr (member threads, C18/C19),  *)
(* late per puppet (greets after the subscribing call).                     *)
(*                                                                         *)
(* Named deviations (the model follows the code, not the ideal): F1 combine *)
(* counts a member Error as an end; F2 share fans out over a snapshot; F3   *)
(* combine broadcasts to ended members; F8 share greets a sink before a     *)
(* late upstream greeted.                                                   *)
(* Repaired in the code and therefore in the model: F4 (merge disposes a    *)
(* late greeter), F5 (combine stores before counting), F6 (take claims its  *)
(* slot atomically), F7 (merge's Pull broadcast re-checks `ended`), F9      *)
(* (take is over when its source ends by itself), F10 (concat!() of no      *)
(* member greets before it completes).  file:line references are to the     *)
(* pinned commit; lines of merge.rs / take.rs / combine.rs / concat.rs      *)
(* moved by up to 25 with those commits.                                    *)
(***************************************************************************)
EXTENDS Integers, Sequences, FiniteSets, TLC

CONSTANTS CFGS,       \* sequence of scenario records (see write_mc in /verif/vlib/tlc.py); the
                      \* variable ci picks one of them in the initial state
          KeepObs,    \* record obs/script histories (FALSE in exhaustive threaded configurations)
          NThr        \* number of member-thread processes (0 in sequential configurations)

NoRef          == [n |-> 0, r |-> "none", s |-> 0, i |-> 0]
Ref(n, r, s, i) == [n |-> n, r |-> r, s |-> s, i |-> i]
Msg(t)    == [t |-> t, v |-> 0, tb |-> NoRef]
MsgD(v)   == [t |-> "D", v |-> v, tb |-> NoRef]
MsgE(v)   == [t |-> "E", v |-> v, tb |-> NoRef]
MsgH(tb)  == [t |-> "H", v |-> 0, tb |-> tb]
IsEnd(m)  == m.t \in {"T", "E"}

KName(k)  == "K" \o ToString(k)
PName(p, i) == "U" \o ToString(p) \o "#" \o ToString(i)
TName(t)  == "T" \o ToString(t)
FnName(n) == "f" \o ToString(n)

\* closure catalogue shared with the harness (graph.rs)
FnInt(f, x) == CASE f = "inc" -> x + 1 [] f = "dbl" -> 2 * x [] f = "half" -> x \div 2
PredInt(p, x) == CASE p = "even" -> x % 2 = 0 [] p = "odd" -> x % 2 = 1 [] p = "gt1" -> x > 1 [] p = "gt11" -> x > 11
                   [] p = "all" -> TRUE [] p = "none" -> FALSE
RedInt(r, a, x) == CASE r = "add" -> a + x [] r = "max" -> (IF a > x THEN a ELSE x)
                     [] r = "lin" -> 2 * a + x
GenList(g, x) == CASE g = "rep" -> <<x, x>>
                   [] g = "upto" -> [q \in 1..(IF x < 0 THEN 0 ELSE IF x > 3 THEN 3 ELSE x) |-> q]
                   [] g = "oddonly" -> IF x % 2 = 1 THEN <<x>> ELSE <<>>

\* a from_iter subscription: the iterator (items / unbounded 1,2,3..), its name for `next` events
\* ("" = not instrumented) and the flags of from_iter.rs:115-120
NewFi(sink, items, unb, lim, name) ==
  [node |-> 0, sink |-> sink, items |-> items, unbounded |-> unb, limit |-> lim, name |-> name, pos |-> 0,
   inloop |-> FALSE, gotpull |-> FALSE, completed |-> FALSE, resdone |-> FALSE]

RemoveAt(sq, i) == SubSeq(sq, 1, i - 1) \o SubSeq(sq, i + 1, Len(sq))
IndexOf(sq, x) == IF \E i \in 1..Len(sq) : sq[i] = x
                  THEN CHOOSE i \in 1..Len(sq) : sq[i] = x /\ \A j \in 1..(i-1) : sq[j] # x
                  ELSE 0

Ev(k, th, fr, to, t, v) == [k |-> k, th |-> th, fr |-> fr, to |-> to, t |-> t, v |-> v]
RetEv(th) == Ev("r", th, "", "", "", 0)

\* number of logged calls still open in o (for the unwinding of a panic)
RECURSIVE OpenCount(_, _, _)
OpenCount(o, i, acc) ==
  IF i > Len(o) THEN acc
  ELSE OpenCount(o, i + 1, IF o[i].k = "c" THEN acc + 1 ELSE IF o[i].k = "r" THEN acc - 1 ELSE acc)

(* --algorithm Callbag {

variables
  ci \in 1..Len(CFGS),                 \* which scenario this behaviour belongs to (never changes)
  st = [n \in 1..N |-> <<>>],          \* per-subscription operator state
  nd = [n \in 1..N |-> InitNd(n)],     \* per-node state (share)
  sk = [k \in 1..NSinks |-> [attached |-> FALSE, greeted |-> FALSE, ended |-> FALSE,
                             disposed |-> FALSE, pulls |-> 0, credit |-> 0, busy |-> 0, tb |-> NoRef]],
  pi = <<>>,                           \* puppet instances in creation order
  fi = <<>>,                           \* from_iter subscriptions (static nodes and flatmap's inner lists)
  tasks = <<>>,                        \* mock nursery tasks (interval)
  now = 0,
  obs = <<>>,
  script = <<>>,
  ntop = 0,
  panicked = FALSE,
  started = FALSE,                     \* threaded scenarios: setup finished, member threads may run
  \* monitors for the threaded scenarios (C18/C19), maintained by the probe sink
  mon = [greets |-> 0, ends |-> 0, errs |-> 0, open |-> 0, ndata |-> 0, seen |-> {}, bad |-> {}],
  done = FALSE;

define {
  CFG      == CFGS[ci]
  N        == Len(CFG.nodes)
  Node(n)  == CFG.nodes[n]
  Kind(n)  == Node(n).kind
  Ups(n)   == Node(n).ups
  NSinks   == Len(CFG.sinks)
  MaxData  == CFG.maxData
  MaxTop   == CFG.maxTop
  MaxPull  == CFG.maxPull
  
  
  \* per-subscription state created in the Handshake branch of each operator
  InitSt(n, sink) ==
    LET k == Kind(n) IN
    CASE k = "map"     -> [sink |-> sink, utb |-> NoRef]
      [] k = "filter"  -> [sink |-> sink, utb |-> NoRef]
      [] k = "scan"    -> [sink |-> sink, utb |-> NoRef, acc |-> Node(n).seed]
      [] k = "take"    -> [sink |-> sink, utb |-> NoRef, taken |-> 0, end |-> FALSE]
      [] k = "skip"    -> [sink |-> sink, utb |-> NoRef, skipped |-> 0]
      [] k = "merge"   -> [sink |-> sink, tbs |-> [q \in 1..Len(Ups(n)) |-> NoRef],
                           start |-> 0, endc |-> 0, ended |-> FALSE]
      [] k = "concat"  -> [sink |-> sink, utb |-> NoRef, i |-> 0, gotpull |-> FALSE]
      [] k = "combine" -> [sink |-> sink, tbs |-> [q \in 1..Len(Ups(n)) |-> NoRef],
                           nstart |-> Len(Ups(n)), ndata |-> Len(Ups(n)), nend |-> Len(Ups(n)),
                           has |-> [q \in 1..Len(Ups(n)) |-> FALSE], ver |-> 0,
                           vals |-> [q \in 1..Len(Ups(n)) |-> 0]]
      [] k \in {"flatten", "flatmap"} -> [sink |-> sink, otb |-> NoRef, itb |-> NoRef]
      [] k = "share"   -> [sink |-> sink]
      [] k = "interval" -> [sink |-> sink, cnt |-> 0, cleared |-> FALSE]
      [] OTHER -> [sink |-> sink]
  
  
  InitNd(n) == IF Kind(n) = "share" THEN [sinks |-> <<>>, utb |-> NoRef] ELSE [x |-> 0]
  
  IsPuppet(n) == Kind(n) \in {"puppet", "puppet_outer"}
  NodeOfPid(p) == CHOOSE n \in 1..N : IsPuppet(n) /\ Node(n).pid = p
  PupMode(p) == Node(NodeOfPid(p)).mode
  PupLate(p) == Node(NodeOfPid(p)).late
  
  IsEnvRef(r) == r.r \in {"K", "ptb"} \/ (r.r = "src" /\ r.n > 0 /\ IsPuppet(r.n))
  SinkKind(k) == CFG.sinks[k]
  
  
  LogO(o, e) == IF KeepObs THEN Append(o, e) ELSE o
  LogS(s, e) == IF KeepObs THEN Append(s, e) ELSE s

  S(r)  == st[r.n][r.s]
  IName(ix) == PName(pi[ix].pup, pi[ix].inst)
  PupLive(ix) == pi[ix].greeted /\ ~pi[ix].ended /\ ~pi[ix].stopped
  SinkLive(k) == sk[k].attached /\ sk[k].greeted /\ ~sk[k].ended /\ ~sk[k].disposed

  \* ---- the environment's options (identical to harness/src/comps.rs) ----
  SinkOpts(k, top) ==
      (IF top THEN {} ELSE {"none"})
      \cup (IF sk[k].pulls < MaxPull /\ (~CFG.c14 \/ sk[k].credit > 0) THEN {"pull"} ELSE {})
      \cup {"term"}
      \cup (IF CFG.sinkErr THEN {"err"} ELSE {})
      \* overlapping subscriptions (C13 scenarios with cfg.cross): from inside its handler this sink makes
      \* ANOTHER sink of the same output act at once: "x attach Kj" / "x pull Kj" / "x term Kj"
      \cup (IF ~top /\ CFG.cross /\ ntop < MaxTop
            THEN {"x attach " \o KName(j) : j \in {q \in 1..NSinks : q # k /\ ~sk[q].attached
                                                                     /\ (q = 1 \/ sk[q-1].attached)}}
                 \* (only sinks that have no delivery in progress: for them it is a top-level action)
                 \cup {"x pull " \o KName(j) : j \in {q \in 1..NSinks : q # k /\ SinkLive(q) /\ sk[q].busy = 0
                                                                              /\ sk[q].pulls < MaxPull}}
                 \cup {"x term " \o KName(j) : j \in {q \in 1..NSinks : q # k /\ SinkLive(q) /\ sk[q].busy = 0}}
            ELSE {})
      \* re-entrant emission: from inside its handler the sink makes a listenable upstream emit at once
      \* (a feedback loop through a subject); scenarios with cfg.reentrant only
      \cup (IF ~top /\ CFG.reentrant
            THEN {"kick " \o IName(ix) : ix \in {q \in 1..Len(pi) : PupLive(q) /\ PupMode(pi[q].pup) # "pull"
                                                                   /\ pi[q].sent < MaxData}}
                 \* ... or makes a member that has not greeted yet greet now
                 \cup {"kickgreet " \o IName(ix) : ix \in {q \in 1..Len(pi) : pi[q].pending}}
                 \* ... or complete / fail at once
                 \cup {"kickend " \o IName(ix) : ix \in {q \in 1..Len(pi) : PupLive(q) /\ PupMode(pi[q].pup) # "pull"}}
                 \cup (IF CFG.allowFail
                       THEN {"kickfail " \o IName(ix) : ix \in {q \in 1..Len(pi) : PupLive(q) /\ PupMode(pi[q].pup) # "pull"}}
                       ELSE {})
            ELSE {})
  \* what a sink may still cause from inside its Terminate/Error handler: it no longer uses its own
  \* talkback, but it may make another sink act (cfg.cross) or an upstream emit / end / greet (cfg.reentrant:
  \* e.g. it reports the end to a subject that feeds a sibling member)
  EndHandlerOpts(k) == SinkOpts(k, FALSE) \ {"none", "pull", "term", "err"}
  \* threaded scenarios: a member whose thread program starts with "greet" answers the Handshake from
  \* its own thread (later); every other member greets inside the subscribing call
  ThrGreets(p) == \E t \in 1..Len(CFG.thr) : CFG.thr[t].pid = p /\ CFG.thr[t].greet
  SubOpts(p) == IF Len(CFG.thr) > 0 THEN (IF ThrGreets(p) THEN {"later"} ELSE {"now"})
                ELSE {"now"} \cup (IF PupLate(p) THEN {"later"} ELSE {})
  AnswerOpts(ix) == (IF pi[ix].sent < MaxData THEN {"data"} ELSE {}) \cup {"end"}
                    \cup (IF CFG.allowFail THEN {"err"} ELSE {})
  BurstOpts(ix) == {"stop"} \cup AnswerOpts(ix)
  PullOpts(ix) == LET md == PupMode(pi[ix].pup) IN
      (IF md # "pull" THEN {"ignore"} ELSE {})
      \cup (IF md # "push" THEN AnswerOpts(ix) \cup {"defer"} ELSE {})
      \* an eagerly completing source: answers the Pull with its last datum and completes at once
      \cup (IF md = "any" /\ pi[ix].sent < MaxData THEN {"dataend"} ELSE {})
  PupTopOpts(ix) == LET md == PupMode(pi[ix].pup) IN
      (IF pi[ix].pending THEN {"greet"} ELSE {})
      \cup (IF PupLive(ix) /\ md # "pull"
            THEN (IF pi[ix].sent < MaxData THEN {"emit"} ELSE {}) \cup {"end"}
                 \cup (IF CFG.allowFail THEN {"fail"} ELSE {})
            ELSE {})
      \cup (IF PupLive(ix) /\ pi[ix].deferred > 0 THEN {"reply"} ELSE {})
  SpawnOpts == {"ok"} \cup (IF CFG.allowFail THEN {"Spawn", "Closed"} ELSE {})
  ArmedMin == IF \E t \in 1..Len(tasks) : tasks[t].armed
              THEN CHOOSE d \in {tasks[t].deadline : t \in {u \in 1..Len(tasks) : tasks[u].armed}} :
                     \A t \in 1..Len(tasks) : tasks[t].armed => d <= tasks[t].deadline
              ELSE 0
  Fireable == {t \in 1..Len(tasks) : tasks[t].armed /\ tasks[t].deadline = ArmedMin}

  \* top-level actions <<component, action>>
  EnabledTop ==
      {<<KName(k), "attach">> : k \in {q \in 1..NSinks : ~sk[q].attached /\ (q = 1 \/ sk[q-1].attached)}}
      \cup UNION {{<<KName(k), a>> : a \in SinkOpts(k, TRUE)} :
                     k \in {q \in 1..NSinks : SinkLive(q) /\ SinkKind(q) = "probe"}}
      \cup UNION {{<<IName(ix), a>> : a \in PupTopOpts(ix)} : ix \in 1..Len(pi)}
      \cup {<<TName(t), "fire">> : t \in Fireable}

  KOfName(nm) == CHOOSE k \in 1..NSinks : KName(k) = nm
  IxOfName(nm) == CHOOSE ix \in 1..Len(pi) : IName(ix) = nm
  TOfName(nm) == CHOOSE t \in 1..Len(tasks) : TName(t) = nm
  IsKName(nm) == \E k \in 1..NSinks : KName(k) = nm
  IsIName(nm) == \E ix \in 1..Len(pi) : IName(ix) = nm

  ThOf(slf) == slf
  IsThr == Len(CFG.thr) > 0
  InstOfPid(p) == CHOOSE ix \in 1..Len(pi) : pi[ix].pup = p /\ \A q \in 1..(ix - 1) : pi[q].pup # p
  \* values member instance ix has sent so far
  SentVals(ix) == {10 * pi[ix].pup + q : q \in 1..pi[ix].sent}
  \* monitor update when the probe sink receives message mm (threaded scenarios)
  MonRecv(mn, mm) ==
    IF mm.t = "H" THEN [mn EXCEPT !.greets = @ + 1]
    ELSE IF mm.t = "D" THEN
      [mn EXCEPT !.open = @ + 1, !.ndata = @ + 1, !.seen = @ \cup {mm.v},
                 !.bad = @ \cup (IF mn.ends > 0 THEN {"data_after_end"} ELSE {})
                           \cup (IF Kind(CFG.root) = "merge" /\ mm.v \in mn.seen THEN {"data_dup"} ELSE {})
                           \cup (IF Kind(CFG.root) = "combine"
                                    /\ \E q \in 1..Len(mm.v) : ~(mm.v[q] \in SentVals(InstOfPid(Node(Ups(CFG.root)[q]).pid)))
                                 THEN {"foreign_value"} ELSE {})]
    ELSE IF mm.t = "T" THEN
      [mn EXCEPT !.ends = @ + 1,
                 !.bad = @ \cup (IF mn.open > 0 THEN {"end_during_data"} ELSE {})
                           \cup (IF mn.ends > 0 THEN {"end_twice"} ELSE {})]
    ELSE IF mm.t = "E" THEN [mn EXCEPT !.errs = @ + 1]
    ELSE mn
}

macro Panic() {
  obs := LogO(obs \o [q \in 1..OpenCount(obs, 1, 0) |-> RetEv(ThOf(self))],
              Ev("panic", ThOf(self), "", "", "", 0));
  panicked := TRUE;
  goto Halt;
}

\* ============================================================================================
\* Deliver(fr, to, m): the closure `to` is called with message m; fr is "S" when the caller is
\* crate code, else the name of the calling environment component.
\* ============================================================================================
procedure Deliver(fr, to, m)
  variables lg = FALSE, sx = 0, jx = 0, ch = "", lv = 0, snap = <<>>;
{
DStart:
  \* ---- boundary logging --------------------------------------------------------------------
  if (to.r = "src" /\ IsPuppet(to.n)) {
    \* Subscribe: the instance is created here so that the event can name it
    sx := Len(pi) + 1;
    lg := TRUE;
    obs := LogO(obs, Ev("c", ThOf(self), fr,
                        PName(Node(to.n).pid, Cardinality({q \in 1..Len(pi) : pi[q].pup = Node(to.n).pid}) + 1),
                        "Sub", Node(to.n).pid));
    pi := Append(pi, [pup |-> Node(to.n).pid,
                      inst |-> Cardinality({q \in 1..Len(pi) : pi[q].pup = Node(to.n).pid}) + 1,
                      node |-> to.n, sink |-> m.tb, greeted |-> FALSE, pending |-> FALSE,
                      ended |-> FALSE, stopped |-> FALSE, stops |-> 0, sent |-> 0, deferred |-> 0]);
  } else if (to.r = "ptb") {
    lg := TRUE;
    obs := LogO(obs, Ev("c", ThOf(self), fr, IName(to.s), m.t, m.v));
  } else if (to.r = "K") {
    lg := TRUE;
    obs := LogO(obs, Ev("c", ThOf(self), fr, KName(to.s), m.t, m.v));
  } else if (to.r = "F" /\ SinkKind(to.s) = "foreach") {
    \* for_each behind a tap named K<k>: the tap logs what arrives from upstream
    lg := TRUE;
    obs := LogO(obs, Ev("c", ThOf(self), "S", KName(to.s), m.t, m.v));
  } else if (fr # "S") {
    \* environment component calling crate code
    lg := TRUE;
    obs := LogO(obs, Ev("c", ThOf(self), fr, "S", m.t, m.v));
  };

DDisp:
  \* ==== probe sink =========================================================================
  if (to.r = "K") {
    \* busy = number of deliveries to this sink that are in progress
    if (m.t = "H") {
      sk[to.s] := [sk[to.s] EXCEPT !.greeted = TRUE, !.credit = 1, !.tb = m.tb, !.busy = @ + 1];
    } else if (m.t = "D") {
      sk[to.s] := [sk[to.s] EXCEPT !.credit = 1, !.busy = @ + 1];
    } else if (IsEnd(m)) {
      sk[to.s] := [sk[to.s] EXCEPT !.ended = TRUE, !.busy = @ + 1];
    } else {
      sk[to.s].busy := sk[to.s].busy + 1;
    };
    if (IsThr) { mon := MonRecv(mon, m); };
K1:
    \* (threaded scenarios: the handler is a scheduling point, so deliveries can overlap)
    if (IsThr /\ m.t = "D") { mon.open := mon.open - 1; };
    jx := 0;
    lv := 0;
K1a:
    \* the sink reacts from inside its handler: up to cfg.maxReact actions (at most one of them a Pull),
    \* ending with "none" or a disposal
    while (jx < CFG.maxReact /\ ~CFG.passive /\ m.t \in {"H", "D"} /\ SinkLive(to.s) /\ sk[to.s].tb # NoRef) {
      with (c \in SinkOpts(to.s, FALSE) \ (IF lv = 1 THEN {"pull"} ELSE {})) {
        script := LogS(script, <<"sink", KName(to.s), c>>);
        ch := c;
      };
K2:
      if (ch = "none") {
        goto K3;
      } else {
        jx := jx + 1;
        lv := IF ch = "pull" THEN 1 ELSE lv;
K2a:
        call SinkAct(to.s, ch);
      };
    };
K2b:
    \* from inside its Terminate/Error handler (the "repeat on complete" idiom) a sink may make ANOTHER sink
    \* act or an upstream emit / end / greet; it does not use its own talkback any more
    if ((CFG.cross \/ CFG.reentrant) /\ IsEnd(m) /\ ~CFG.passive /\ EndHandlerOpts(to.s) # {}) {
      with (c \in {"none"} \cup EndHandlerOpts(to.s)) {
        script := LogS(script, <<"sink", KName(to.s), c>>);
        ch := c;
      };
K2c:
      if (ch # "none") {
        call SinkAct(to.s, ch);
      };
    };
K3:
    sk[to.s].busy := sk[to.s].busy - 1;
    goto Ret;
  }
  \* ==== puppet source: Subscribe ============================================================
  else if (to.r = "src" /\ IsPuppet(to.n)) {
    with (c \in SubOpts(Node(to.n).pid)) {
      script := LogS(script, <<"sub", IName(sx), c>>);
      ch := c;
    };
P1:
    if (ch = "now") {
      call Greet(sx);
P2:
      call Burst(sx);
    } else {
      pi[sx].pending := TRUE;
    };
P3:
    goto Ret;
  }
  \* ==== puppet talkback ======================================================================
  else if (to.r = "ptb") {
    if (m.t = "P") {
      if (PupLive(to.s)) {
        with (c \in PullOpts(to.s)) {
          script := LogS(script, <<"onpull", IName(to.s), c>>);
          ch := c;
        };
      } else {
        ch := "dead";
      };
    } else if (IsEnd(m)) {
      pi[to.s] := [pi[to.s] EXCEPT !.stopped = TRUE, !.stops = @ + 1];
      \* re-entrant scenarios: being stopped, this source may make a sibling that has not greeted yet
      \* greet at once (members that are linked to each other)
      if (CFG.reentrant /\ \E q \in 1..Len(pi) : pi[q].pending) {
        with (c \in {"none"} \cup {"kickgreet " \o IName(q) : q \in {q2 \in 1..Len(pi) : pi[q2].pending}}) {
          script := LogS(script, <<"onstop", IName(to.s), c>>);
          ch := c;
        };
      } else {
        ch := "x";
      };
    } else {
      ch := "x";
    };
T1:
    if (ch = "data") {
      call Emit(to.s);
    } else if (ch = "dataend") {
      call Emit(to.s);
T1a:
      if (PupLive(to.s)) {
        call EndP(to.s);
      };
    } else if (ch = "end") {
      call EndP(to.s);
    } else if (ch = "err") {
      call FailP(to.s);
    } else if (ch = "defer") {
      pi[to.s].deferred := pi[to.s].deferred + 1;
      obs := LogO(obs, Ev("note", ThOf(self), "", IName(to.s), "defer", 0));
    } else if (\E q \in 1..Len(pi) : ch = "kickgreet " \o IName(q)) {
      call PupTop(CHOOSE q \in 1..Len(pi) : ch = "kickgreet " \o IName(q), "greet");
    };
T2:
    goto Ret;
  }
  \* ==== for_each (sink of the crate) =========================================================
  else if (to.r = "F") {
    \* for_each.rs:125-143
    if (m.t = "H") {
      sk[to.s].tb := m.tb;
FE1:
      call Deliver(IF SinkKind(to.s) = "foreach" THEN KName(to.s) ELSE "S", sk[to.s].tb, Msg("P"));
FE2:
      goto Ret;
    } else if (m.t = "D") {
      obs := LogO(obs, Ev("fn", ThOf(self), "", "F" \o ToString(to.s), "", m.v));
FE3:
      if (sk[to.s].tb = NoRef) { Panic(); } else {
        call Deliver(IF SinkKind(to.s) = "foreach" THEN KName(to.s) ELSE "S", sk[to.s].tb, Msg("P"));
      };
FE4:
      goto Ret;
    } else if (m.t = "P") {
      Panic();
    } else {
      goto Ret;
    };
  }
  \* ==== from_iter ============================================================================
  else if (to.r = "src" /\ Kind(to.n) = "from_iter") {
    if (m.t = "H") {
      \* from_iter.rs:114-190: clone the iterable, greet the sink
      sx := Len(fi) + 1;
      obs := LogO(obs, Ev("clone", ThOf(self), "",
                          "I" \o ToString(to.n) \o "#" \o ToString(Cardinality({q \in 1..Len(fi) : fi[q].name # "" /\ fi[q].node = to.n}) + 1),
                          "", 0));
      fi := Append(fi, [NewFi(m.tb, Node(to.n).items, Node(to.n).unbounded, Node(to.n).limit,
                              "I" \o ToString(to.n) \o "#" \o ToString(Cardinality({q \in 1..Len(fi) : fi[q].name # "" /\ fi[q].node = to.n}) + 1))
                        EXCEPT !.node = to.n]);
FR1:
      call Deliver("S", m.tb, MsgH(Ref(0, "fitb", sx, 0)));
FR2:
      goto Ret;
    } else { goto Ret; };
  }
  else if (to.r = "fitb") {
    \* sink talkback: from_iter.rs:159-185
    if (fi[to.s].completed) { goto Ret; }
    else if (m.t \in {"H", "D"}) { Panic(); }
    else if (m.t = "P") {
      fi[to.s].gotpull := TRUE;
FR3:
      if (~fi[to.s].inloop /\ ~fi[to.s].resdone) {
        \* the emission loop: from_iter.rs:127-151
        fi[to.s].inloop := TRUE;
FR4:
        while (fi[to.s].gotpull /\ ~fi[to.s].completed) {
          \* iter.next()
          lv := IF fi[to.s].unbounded
                THEN (IF fi[to.s].pos >= fi[to.s].limit THEN -1 ELSE fi[to.s].pos + 1)
                ELSE (IF fi[to.s].pos < Len(fi[to.s].items) THEN fi[to.s].items[fi[to.s].pos + 1] ELSE -1);
          fi[to.s] := [fi[to.s] EXCEPT !.gotpull = FALSE, !.pos = @ + 1, !.resdone = (lv = -1)];
          if (fi[to.s].name # "") {
            obs := LogO(IF fi[to.s].unbounded /\ lv = -1
                        THEN LogO(obs, Ev("runaway", ThOf(self), "", fi[to.s].name, "", fi[to.s].pos - 1))
                        ELSE obs,
                        Ev("next", ThOf(self), "", fi[to.s].name, "", lv));
          };
FR5:
          if (fi[to.s].resdone) {
            call Deliver("S", fi[to.s].sink, Msg("T"));
FR6:
            goto FR8;
          } else {
            call Deliver("S", fi[to.s].sink, MsgD(lv));
          };
FR7:
          skip;
        };
FR8:
        fi[to.s].inloop := FALSE;
      };
FR9:
      goto Ret;
    } else {
      fi[to.s].completed := TRUE;
      goto Ret;
    };
  }
  \* ==== map ==================================================================================
  else if (Kind(to.n) = "map") {
    if (to.r = "src") {
      if (m.t = "H") {
        sx := Len(st[to.n]) + 1;
        st[to.n] := Append(st[to.n], InitSt(to.n, m.tb));
MP1:
        call Deliver("S", Ref(Ups(to.n)[1], "src", 0, 0), MsgH(Ref(to.n, "up", sx, 1)));
MP2:
        goto Ret;
      } else { goto Ret; };
    } else if (to.r = "up") {
      if (m.t = "H") {
        st[to.n][to.s].utb := m.tb;
MP3:
        call Deliver("S", S(to).sink, MsgH(Ref(to.n, "tb", to.s, 0)));
MP4:
        goto Ret;
      } else if (m.t = "D") {
        obs := LogO(obs, Ev("fn", ThOf(self), "", FnName(to.n), "", m.v));
MP5:
        call Deliver("S", S(to).sink, MsgD(FnInt(Node(to.n).f, m.v)));
MP6:
        goto Ret;
      } else if (m.t = "P") {
        Panic();
      } else {
        call Deliver("S", S(to).sink, m);
MP7:
        goto Ret;
      };
    } else {
      \* sink talkback: map.rs:104-136
      if (m.t \in {"H", "D"}) { Panic(); } else {
        call Deliver("S", S(to).utb, m);
MP8:
        goto Ret;
      };
    };
  }
  \* ==== filter ===============================================================================
  else if (Kind(to.n) = "filter") {
    if (to.r = "src") {
      if (m.t = "H") {
        sx := Len(st[to.n]) + 1;
        st[to.n] := Append(st[to.n], InitSt(to.n, m.tb));
FI1:
        call Deliver("S", Ref(Ups(to.n)[1], "src", 0, 0), MsgH(Ref(to.n, "up", sx, 1)));
FI2:
        goto Ret;
      } else { goto Ret; };
    } else if (to.r = "up") {
      if (m.t = "H") {
        st[to.n][to.s].utb := m.tb;
FI3:
        call Deliver("S", S(to).sink, MsgH(Ref(to.n, "tb", to.s, 0)));
FI4:
        goto Ret;
      } else if (m.t = "D") {
        obs := LogO(obs, Ev("fn", ThOf(self), "", FnName(to.n), "", m.v));
FI5:
        if (PredInt(Node(to.n).p, m.v)) {
          call Deliver("S", S(to).sink, m);
        } else if (S(to).utb = NoRef) {
          Panic();
        } else {
          call Deliver("S", S(to).utb, Msg("P"));
        };
FI6:
        goto Ret;
      } else if (m.t = "P") {
        Panic();
      } else {
        call Deliver("S", S(to).sink, m);
FI7:
        goto Ret;
      };
    } else {
      if (m.t \in {"H", "D"} \/ S(to).utb = NoRef) { Panic(); } else {
        call Deliver("S", S(to).utb, m);
FI8:
        goto Ret;
      };
    };
  }
  \* ==== scan =================================================================================
  else if (Kind(to.n) = "scan") {
    if (to.r = "src") {
      if (m.t = "H") {
        sx := Len(st[to.n]) + 1;
        st[to.n] := Append(st[to.n], InitSt(to.n, m.tb));
SC1:
        call Deliver("S", Ref(Ups(to.n)[1], "src", 0, 0), MsgH(Ref(to.n, "up", sx, 1)));
SC2:
        goto Ret;
      } else { goto Ret; };
    } else if (to.r = "up") {
      if (m.t = "H") {
        st[to.n][to.s].utb := m.tb;
SC3:
        call Deliver("S", S(to).sink, MsgH(Ref(to.n, "tb", to.s, 0)));
SC4:
        goto Ret;
      } else if (m.t = "D") {
        \* scan.rs:157-165: store the new accumulator, then deliver it
        obs := LogO(obs, Ev("fn", ThOf(self), "", FnName(to.n), "", <<S(to).acc, m.v>>));
        st[to.n][to.s].acc := RedInt(Node(to.n).r, S(to).acc, m.v);
SC5:
        call Deliver("S", S(to).sink, MsgD(S(to).acc));
SC6:
        goto Ret;
      } else if (m.t = "P") {
        Panic();
      } else {
        call Deliver("S", S(to).sink, m);
SC7:
        goto Ret;
      };
    } else {
      if (m.t \in {"H", "D"}) { Panic(); } else {
        call Deliver("S", S(to).utb, m);
SC8:
        goto Ret;
      };
    };
  }
  \* ==== take =================================================================================
  else if (Kind(to.n) = "take") {
    if (to.r = "src") {
      if (m.t = "H") {
        sx := Len(st[to.n]) + 1;
        st[to.n] := Append(st[to.n], InitSt(to.n, m.tb));
TK1:
        call Deliver("S", Ref(Ups(to.n)[1], "src", 0, 0), MsgH(Ref(to.n, "up", sx, 1)));
TK2:
        goto Ret;
      } else { goto Ret; };
    } else if (to.r = "up") {
      if (m.t = "H") {
        \* take.rs:218-225
        st[to.n][to.s].utb := m.tb;
TK3:
        call Deliver("S", S(to).sink, MsgH(Ref(to.n, "tb", to.s, 0)));
TK4:
        goto Ret;
      } else if (m.t = "D") {
        \* take.rs:226-258
tk_taken_fu:
        \* take.rs (fix F6): one atomic fetch_update claims a slot iff taken < max
        if (S(to).taken < Node(to.n).n) {
          lv := S(to).taken + 1;
          st[to.n][to.s].taken := S(to).taken + 1;
tk_data:
          call Deliver("S", S(to).sink, m);
tk_max:
          if (lv = Node(to.n).n) {
tk_end_ld:
            if (~S(to).end) {
tk_end_st:
              st[to.n][to.s].end := TRUE;
tk_up_ld:
              if (S(to).utb = NoRef) { Panic(); } else {
tk_up_term:
                call Deliver("S", S(to).utb, Msg("T"));
              };
tk_sink_term:
              call Deliver("S", S(to).sink, Msg("T"));
            };
          };
        };
TK5:
        goto Ret;
      } else if (m.t = "P") {
        Panic();
      } else {
        \* Error | Terminate from the source (fix F9): take is over, its own completion must not run
tk_src_end_st:
        st[to.n][to.s].end := TRUE;
TK6a:
        call Deliver("S", S(to).sink, m);
TK6:
        goto Ret;
      };
    } else {
      \* sink talkback: take.rs:156-204
      if (m.t \in {"H", "D"}) { Panic(); }
      else if (m.t = "P") {
        if (S(to).taken < Node(to.n).n) {
          if (S(to).utb = NoRef) { Panic(); } else {
            call Deliver("S", S(to).utb, m);
          };
        };
TK7:
        goto Ret;
      } else {
        st[to.n][to.s].end := TRUE;
TK8:
        if (S(to).utb = NoRef) { Panic(); } else {
          call Deliver("S", S(to).utb, m);
        };
TK9:
        goto Ret;
      };
    };
  }
  \* ==== skip =================================================================================
  else if (Kind(to.n) = "skip") {
    if (to.r = "src") {
      if (m.t = "H") {
        sx := Len(st[to.n]) + 1;
        st[to.n] := Append(st[to.n], InitSt(to.n, m.tb));
SK1:
        call Deliver("S", Ref(Ups(to.n)[1], "src", 0, 0), MsgH(Ref(to.n, "up", sx, 1)));
SK2:
        goto Ret;
      } else { goto Ret; };
    } else if (to.r = "up") {
      if (m.t = "H") {
        st[to.n][to.s].utb := m.tb;
SK3:
        call Deliver("S", S(to).sink, MsgH(Ref(to.n, "tb", to.s, 0)));
SK4:
        goto Ret;
      } else if (m.t = "D") {
        \* skip.rs:234-251
        if (S(to).skipped < Node(to.n).n) {
          st[to.n][to.s].skipped := S(to).skipped + 1;
SK5:
          if (S(to).utb = NoRef) { Panic(); } else {
            call Deliver("S", S(to).utb, Msg("P"));
          };
        } else {
          call Deliver("S", S(to).sink, m);
        };
SK6:
        goto Ret;
      } else if (m.t = "P") {
        Panic();
      } else {
        call Deliver("S", S(to).sink, m);
SK7:
        goto Ret;
      };
    } else {
      if (m.t \in {"H", "D"} \/ S(to).utb = NoRef) { Panic(); } else {
        call Deliver("S", S(to).utb, m);
SK8:
        goto Ret;
      };
    };
  }
  \* ==== merge ================================================================================
  else if (Kind(to.n) = "merge") {
    if (to.r = "src") {
      if (m.t = "H") {
        sx := Len(st[to.n]) + 1;
        st[to.n] := Append(st[to.n], InitSt(to.n, m.tb));
        jx := 1;
MG1:
        \* merge.rs:158-228: subscribe the members in order, stop as soon as `ended`
        while (jx <= Len(Ups(to.n)) /\ ~st[to.n][sx].ended) {
          call Deliver("S", Ref(Ups(to.n)[jx], "src", 0, 0), MsgH(Ref(to.n, "up", sx, jx)));
MG2:
          jx := jx + 1;
        };
        goto Ret;
      } else { goto Ret; };
    } else if (to.r = "up") {
      if (m.t = "H") {
mg_late_ld:
        \* merge.rs:179-187 (fix F4): a member greeting after the output is over is disposed at once
        if (S(to).ended) {
          call Deliver("S", m.tb, Msg("T"));
mg_late_ret:
          goto Ret;
        };
mg_tb_st:
        st[to.n][to.s].tbs[to.i] := m.tb;
mg_start_fa:
        lv := S(to).start + 1;
        st[to.n][to.s].start := S(to).start + 1;
mg_greet:
        if (lv = 1) {
          call Deliver("S", S(to).sink, MsgH(Ref(to.n, "tb", to.s, 0)));
        };
MG3:
        goto Ret;
      } else if (m.t = "D") {
mg_data:
        call Deliver("S", S(to).sink, m);
MG4:
        goto Ret;
      } else if (m.t = "P") {
        Panic();
      } else if (m.t = "E") {
        \* merge.rs:196-212
mg_ended_st:
        st[to.n][to.s].ended := TRUE;
        jx := IF to.i = 1 THEN 2 ELSE 1;
mg_sib_ld:
        \* one load per sibling j # i
        while (jx <= Len(Ups(to.n))) {
          if (S(to).tbs[jx] # NoRef) {
mg_sib_term:
            call Deliver("S", S(to).tbs[jx], Msg("T"));
          };
MG5:
          jx := IF jx + 1 = to.i THEN jx + 2 ELSE jx + 1;
        };
mg_err:
        call Deliver("S", S(to).sink, m);
MG6:
        goto Ret;
      } else {
        \* Terminate: merge.rs:213-220
mg_tb_clr:
        st[to.n][to.s].tbs[to.i] := NoRef;
mg_end_fa:
        lv := S(to).endc + 1;
        st[to.n][to.s].endc := S(to).endc + 1;
mg_term:
        if (lv = Len(Ups(to.n))) {
          call Deliver("S", S(to).sink, Msg("T"));
        };
MG7:
        goto Ret;
      };
    } else {
      \* sink talkback: merge.rs:115-154
      if (IsEnd(m)) {
mg_tk_ended_st:
        st[to.n][to.s].ended := TRUE;
      };
MG8a:
      jx := 1;
MG8:
      while (jx <= Len(Ups(to.n))) {
        if (S(to).tbs[jx] # NoRef) {
          if (m.t \in {"H", "D"}) { Panic(); }
          else if (m.t = "P") {
            \* fix F7: the output may have ended while an earlier member was being pulled
            snap := <<S(to).tbs[jx]>>;
mg_pl_ended_ld:
            if (S(to).ended) { goto Ret; } else {
              call Deliver("S", snap[1], m);
            };
          } else {
            call Deliver("S", S(to).tbs[jx], m);
          };
        };
MG9:
        jx := jx + 1;
      };
      goto Ret;
    };
  }
  \* ==== concat ===============================================================================
  else if (Kind(to.n) = "concat") {
    if (to.r = "src") {
      if (m.t = "H") {
        sx := Len(st[to.n]) + 1;
        st[to.n] := Append(st[to.n], InitSt(to.n, m.tb));
        if (Len(Ups(to.n)) = 0) { goto CC0; } else { goto CCNext; };
      } else { goto Ret; };
    } else if (to.r = "ntb") {
      \* the talkback handed out when there is no member (fix F10): only remembers a disposal
      if (m.t \in {"E", "T"}) { st[to.n][to.s].gotpull := TRUE; };
      goto Ret;
    } else if (to.r = "up") {
      if (m.t = "H") {
        \* concat.rs:178-197
        st[to.n][to.s].utb := m.tb;
CC1:
        if (S(to).i = 0) {
          call Deliver("S", S(to).sink, MsgH(Ref(to.n, "tb", to.s, 0)));
        } else if (S(to).gotpull) {
          call Deliver("S", S(to).utb, Msg("P"));
        };
CC2:
        goto Ret;
      } else if (m.t = "D") {
        call Deliver("S", S(to).sink, m);
CC3:
        goto Ret;
      } else if (m.t = "P") {
        Panic();
      } else if (m.t = "E") {
        call Deliver("S", S(to).sink, m);
CC4:
        goto Ret;
      } else {
        \* Terminate: advance and subscribe the next member (concat.rs:215-220)
        st[to.n][to.s].i := S(to).i + 1;
        sx := to.s;
        goto CCNext;
      };
    } else {
      \* sink talkback: concat.rs:105-143
      if (m.t \in {"H", "D"}) { Panic(); } else {
        if (m.t = "P") {
          st[to.n][to.s].gotpull := TRUE;
        };
CC5:
        if (S(to).utb = NoRef) { Panic(); } else {
          call Deliver("S", S(to).utb, m);
        };
CC6:
        goto Ret;
      };
    };
CCNext:
    \* concat.rs:157-228 (closure `next`)
    if (st[to.n][sx].i = Len(Ups(to.n))) {
      call Deliver("S", st[to.n][sx].sink, Msg("T"));
    } else {
      call Deliver("S", Ref(Ups(to.n)[st[to.n][sx].i + 1], "src", 0, 0), MsgH(Ref(to.n, "up", sx, 0)));
    };
CC7:
    goto Ret;
CC0:
    \* no member at all (fix F10, as in the JavaScript original): greet, then complete unless disposed
    call Deliver("S", st[to.n][sx].sink, MsgH(Ref(to.n, "ntb", sx, 0)));
CC0b:
    \* (the flag `disposed` of that branch is kept in the otherwise unused field gotpull)
    if (~st[to.n][sx].gotpull) { call Deliver("S", st[to.n][sx].sink, Msg("T")); };
CC0c:
    goto Ret;
  }
  \* ==== combine ==============================================================================
  else if (Kind(to.n) = "combine") {
    if (to.r = "src") {
      if (m.t = "H") {
        sx := Len(st[to.n]) + 1;
        st[to.n] := Append(st[to.n], InitSt(to.n, m.tb));
        jx := 1;
CB1:
        \* combine.rs:210-301: all members are subscribed unconditionally
        while (jx <= Len(Ups(to.n))) {
          call Deliver("S", Ref(Ups(to.n)[jx], "src", 0, 0), MsgH(Ref(to.n, "up", sx, jx)));
CB2:
          jx := jx + 1;
        };
        goto Ret;
      } else { goto Ret; };
    } else if (to.r = "up") {
      if (m.t = "H") {
cb_tb_st:
        st[to.n][to.s].tbs[to.i] := m.tb;
cb_start_fs:
        lv := S(to).nstart - 1;
        st[to.n][to.s].nstart := S(to).nstart - 1;
cb_greet:
        if (lv = 0) {
          call Deliver("S", S(to).sink, MsgH(Ref(to.n, "tb", to.s, 0)));
        };
CB3:
        goto Ret;
      } else if (m.t = "D") {
        \* combine.rs:246-277
cb_vals_ld:
        \* combine.rs (fix F5): is this the member's first datum?  (only this member writes its slot)
        jx := IF S(to).has[to.i] THEN 0 ELSE 1;
cb_rcu_ld:
        \* vals.rcu: load ...
        snap := <<S(to).ver>>;
cb_rcu_cas:
        \* ... clone, set slot i, compare-and-swap; retry if another member got in between
        if (S(to).ver # snap[1]) {
          goto cb_rcu_ld;
        } else {
          st[to.n][to.s] := [S(to) EXCEPT !.has[to.i] = TRUE, !.vals[to.i] = m.v, !.ver = @ + 1];
        };
cb_ndata:
        if (jx = 1) {
cb_ndata_fs:
          lv := S(to).ndata - 1;
          st[to.n][to.s].ndata := S(to).ndata - 1;
        } else {
cb_ndata_ld:
          lv := S(to).ndata;
        };
cb_emit:
        if (lv = 0) {
cb_emit_ld:
          if (\E q \in 1..Len(Ups(to.n)) : ~S(to).has[q]) {
            Panic();   \* Option::unwrap on a None slot
          } else {
            snap := S(to).vals;
cb_data:
            call Deliver("S", S(to).sink, MsgD(snap));
          };
        };
CB4:
        goto Ret;
      } else if (m.t = "P") {
        Panic();
      } else {
        \* Error | Terminate: combine.rs:281-291 (deviation F1: an Error is counted as an end)
cb_end_fs:
        lv := S(to).nend - 1;
        st[to.n][to.s].nend := S(to).nend - 1;
cb_term:
        if (lv = 0) {
          call Deliver("S", S(to).sink, Msg("T"));
        };
CB5:
        goto Ret;
      };
    } else {
      \* sink talkback: combine.rs:147-206 (deviation F3: broadcast also to ended members)
      if (m.t \in {"H", "D"}) { Panic(); } else {
        jx := 1;
CB6:
        while (jx <= Len(Ups(to.n))) {
cb_sib_ld:
          \* source_talkbacks.<jx>.load()
          if (S(to).tbs[jx] = NoRef) { Panic(); } else {
            call Deliver("S", S(to).tbs[jx], m);
          };
CB7:
          jx := jx + 1;
        };
        goto Ret;
      };
    };
  }
  \* ==== flatten ==============================================================================
  else if (Kind(to.n) \in {"flatten", "flatmap"}) {
    if (to.r = "src") {
      if (m.t = "H") {
        sx := Len(st[to.n]) + 1;
        st[to.n] := Append(st[to.n], InitSt(to.n, m.tb));
FL1:
        call Deliver("S", Ref(Ups(to.n)[1], "src", 0, 0), MsgH(Ref(to.n, "up", sx, 0)));
FL2:
        goto Ret;
      } else { goto Ret; };
    } else if (to.r = "up") {
      \* outer source talkback: flatten.rs:154-281
      if (m.t = "H") {
        st[to.n][to.s].otb := m.tb;
FL3:
        call Deliver("S", S(to).sink, MsgH(Ref(to.n, "tb", to.s, 0)));
FL4:
        goto Ret;
      } else if (m.t = "D") {
        if (Kind(to.n) = "flatmap") {
          \* flatten(map(g)): map's closure turns the datum into from_iter(g(x)) (graph.rs "flatmap")
          obs := LogO(obs, Ev("fn", ThOf(self), "", FnName(to.n), "", m.v));
        };
FL5a:
        if (S(to).itb # NoRef) {
          call Deliver("S", S(to).itb, Msg("T"));
        };
FL5:
        if (Kind(to.n) = "flatmap") {
          \* subscribing the fresh from_iter: it greets the inner-source closure at once
          fi := Append(fi, NewFi(Ref(to.n, "in", to.s, 0), GenList(Node(to.n).g, m.v), FALSE, 0, ""));
          call Deliver("S", Ref(to.n, "in", to.s, 0), MsgH(Ref(0, "fitb", Len(fi), 0)));
        } else {
          call Deliver("S", Ref(NodeOfPid(m.v), "src", 0, 0), MsgH(Ref(to.n, "in", to.s, 0)));
        };
FL6:
        goto Ret;
      } else if (m.t = "P") {
        Panic();
      } else if (m.t = "E") {
        if (S(to).itb # NoRef) {
          call Deliver("S", S(to).itb, Msg("T"));
        };
FL7:
        call Deliver("S", S(to).sink, m);
FL8:
        goto Ret;
      } else {
        if (S(to).itb = NoRef) {
          call Deliver("S", S(to).sink, Msg("T"));
        } else {
          st[to.n][to.s].otb := NoRef;
        };
FL9:
        goto Ret;
      };
    } else if (to.r = "in") {
      \* inner source talkback: flatten.rs:184-254
      if (m.t = "H") {
        st[to.n][to.s].itb := m.tb;
FL10:
        call Deliver("S", S(to).itb, Msg("P"));
FL11:
        goto Ret;
      } else if (m.t = "D") {
        call Deliver("S", S(to).sink, m);
FL12:
        goto Ret;
      } else if (m.t = "P") {
        Panic();
      } else if (m.t = "E") {
        if (S(to).otb # NoRef) {
          call Deliver("S", S(to).otb, Msg("T"));
        };
FL13:
        call Deliver("S", S(to).sink, m);
FL14:
        goto Ret;
      } else {
        if (S(to).otb = NoRef) {
          call Deliver("S", S(to).sink, Msg("T"));
        } else {
          st[to.n][to.s].itb := NoRef;
FL15:
          call Deliver("S", S(to).otb, Msg("P"));
        };
FL16:
        goto Ret;
      };
    } else {
      \* sink talkback: flatten.rs:102-143
      if (m.t \in {"H", "D"}) { Panic(); }
      else if (m.t = "P") {
        if (S(to).itb # NoRef) {
          call Deliver("S", S(to).itb, m);
        } else if (S(to).otb # NoRef) {
          call Deliver("S", S(to).otb, m);
        };
FL17:
        goto Ret;
      } else {
        \* Error | Terminate: both levels get Terminate
        if (S(to).itb # NoRef) {
          call Deliver("S", S(to).itb, Msg("T"));
        };
FL18:
        if (S(to).otb # NoRef) {
          call Deliver("S", S(to).otb, Msg("T"));
        };
FL19:
        goto Ret;
      };
    };
  }
  \* ==== share ================================================================================
  else if (Kind(to.n) = "share") {
    if (to.r = "src") {
      if (m.t = "H") {
        \* share.rs:191-288
        sx := Len(st[to.n]) + 1;
        st[to.n] := Append(st[to.n], InitSt(to.n, m.tb));
        nd[to.n].sinks := Append(nd[to.n].sinks, m.tb);
SH1:
        if (Len(nd[to.n].sinks) = 1) {
          call Deliver("S", Ref(Ups(to.n)[1], "src", 0, 0), MsgH(Ref(to.n, "up", sx, 0)));
        } else {
          call Deliver("S", m.tb, MsgH(Ref(to.n, "tb", sx, 0)));
        };
SH2:
        goto Ret;
      } else { goto Ret; };
    } else if (to.r = "up") {
      if (m.t = "H") {
        nd[to.n].utb := m.tb;
SH3:
        call Deliver("S", S(to).sink, MsgH(Ref(to.n, "tb", to.s, 0)));
SH4:
        goto Ret;
      } else {
        \* fan-out over a snapshot of the sink list (share.rs:271-278)
        snap := nd[to.n].sinks;
        jx := 1;
SH5:
        while (jx <= Len(snap)) {
          call Deliver("S", snap[jx], m);
SH6:
          jx := jx + 1;
        };
        if (IsEnd(m)) {
          nd[to.n].sinks := <<>>;
        };
SH7:
        goto Ret;
      };
    } else {
      \* sink talkback: share.rs:209-251
      if (m.t \in {"H", "D"}) { Panic(); }
      else if (m.t = "P") {
        if (nd[to.n].utb = NoRef) { Panic(); } else {
          call Deliver("S", nd[to.n].utb, m);
        };
SH8:
        goto Ret;
      } else {
        if (IndexOf(nd[to.n].sinks, S(to).sink) # 0) {
          nd[to.n].sinks := RemoveAt(nd[to.n].sinks, IndexOf(nd[to.n].sinks, S(to).sink));
        };
SH9:
        if (Len(nd[to.n].sinks) = 0) {
          if (nd[to.n].utb = NoRef) { Panic(); } else {
            call Deliver("S", nd[to.n].utb, Msg("T"));
          };
        };
SH10:
        goto Ret;
      };
    };
  }
  \* ==== interval =============================================================================
  else if (Kind(to.n) = "interval") {
    if (to.r = "src") {
      if (m.t = "H") {
        \* interval.rs:85-127
        sx := Len(st[to.n]) + 1;
        st[to.n] := Append(st[to.n], InitSt(to.n, m.tb));
        with (c \in SpawnOpts) {
          script := LogS(script, <<"spawn", TName(Len(tasks) + 1), c>>);
          obs := LogO(obs, Ev("spawn", ThOf(self), "", TName(Len(tasks) + 1), c, 0));
          ch := c;
          tasks := Append(tasks, [node |-> to.n, sub |-> sx, ok |-> (c = "ok"),
                                  started |-> (c # "ok"), armed |-> FALSE, deadline |-> 0,
                                  finished |-> FALSE]);
        };
IV1:
        if (ch = "ok") {
          call Deliver("S", m.tb, MsgH(Ref(to.n, "tb", sx, 0)));
        } else {
          call Deliver("S", m.tb, MsgE(IF ch = "Spawn" THEN 700 ELSE 701));
        };
IV2:
        goto Ret;
      } else { goto Ret; };
    } else {
      if (IsEnd(m)) {
        st[to.n][to.s].cleared := TRUE;
      };
      goto Ret;
    };
  }
  else {
    \* unknown callee: a modelling error
    assert FALSE;
  };

Ret:
  if (lg) {
    obs := LogO(obs, RetEv(ThOf(self)));
  };
  return;

Halt:
  await FALSE;
}

\* ---- probe sink acting on its talkback (nested in a handler or at top level) ----------------
procedure SinkAct(ka, ca)
{
SA0:
  if (ca = "pull") {
    sk[ka] := [sk[ka] EXCEPT !.pulls = @ + 1, !.credit = 0];
    call Deliver(KName(ka), sk[ka].tb, Msg("P"));
  } else if (ca = "term") {
    sk[ka].disposed := TRUE;
    call Deliver(KName(ka), sk[ka].tb, Msg("T"));
  } else if (ca = "err") {
    sk[ka].disposed := TRUE;
    call Deliver(KName(ka), sk[ka].tb, MsgE(800 + ka));
  } else if (\E ix \in 1..Len(pi) : ca = "kick " \o IName(ix)) {
    call Emit(CHOOSE ix \in 1..Len(pi) : ca = "kick " \o IName(ix));
  } else if (\E ix \in 1..Len(pi) : ca = "kickgreet " \o IName(ix)) {
    call PupTop(CHOOSE ix \in 1..Len(pi) : ca = "kickgreet " \o IName(ix), "greet");
  } else if (\E ix \in 1..Len(pi) : ca = "kickend " \o IName(ix)) {
    call EndP(CHOOSE ix \in 1..Len(pi) : ca = "kickend " \o IName(ix));
  } else if (\E ix \in 1..Len(pi) : ca = "kickfail " \o IName(ix)) {
    call FailP(CHOOSE ix \in 1..Len(pi) : ca = "kickfail " \o IName(ix));
  } else if (\E j \in 1..NSinks : \E a \in {"attach", "pull", "term"} : ca = "x " \o a \o " " \o KName(j)) {
    \* a top-level action of another subscription, performed from inside this sink's handler
    ntop := ntop + 1;
    with (j \in {q \in 1..NSinks : \E a \in {"attach", "pull", "term"} : ca = "x " \o a \o " " \o KName(q)}) {
      with (a \in {b \in {"attach", "pull", "term"} : ca = "x " \o b \o " " \o KName(j)}) {
        obs := LogO(obs, Ev("top", 0, "", KName(j), a, 0));
        if (a = "attach") {
          sk[j].attached := TRUE;
          call Deliver("S", Ref(CFG.root, "src", 0, 0), MsgH(Ref(0, "K", j, 0)));
        } else {
          call SinkAct(j, a);
        };
      };
    };
  };
SA1:
  return;
}

\* ---- puppet instance actions -----------------------------------------------------------------
procedure Greet(gx)
{
G0:
  pi[gx] := [pi[gx] EXCEPT !.greeted = TRUE, !.pending = FALSE];
  call Deliver(IName(gx), pi[gx].sink, MsgH(Ref(pi[gx].node, "ptb", gx, 0)));
G1:
  return;
}

procedure Emit(ex)
{
E0:
  pi[ex].sent := pi[ex].sent + 1;
  call Deliver(IName(ex), pi[ex].sink,
               MsgD(IF Kind(pi[ex].node) = "puppet_outer"
                    THEN Node(Node(pi[ex].node).inner[((pi[ex].sent - 1) % Len(Node(pi[ex].node).inner)) + 1]).pid
                    ELSE 10 * pi[ex].pup + pi[ex].sent));
E1:
  return;
}

procedure EndP(nx)
{
N0:
  pi[nx].ended := TRUE;
  call Deliver(IName(nx), pi[nx].sink, Msg("T"));
N1:
  return;
}

procedure FailP(fx)
{
F0:
  pi[fx].ended := TRUE;
  call Deliver(IName(fx), pi[fx].sink, MsgE(900 + pi[fx].pup));
F1:
  return;
}

procedure Burst(bx)
  variables bc = "";
{
B0:
  while (PupLive(bx) /\ PupMode(pi[bx].pup) # "pull" /\ CFG.burst) {
    with (c \in BurstOpts(bx)) {
      script := LogS(script, <<"burst", IName(bx), c>>);
      bc := c;
    };
B1:
    if (bc = "data") {
      call Emit(bx);
    } else if (bc = "end") {
      call EndP(bx);
B2:
      return;
    } else if (bc = "err") {
      call FailP(bx);
B3:
      return;
    } else {
      return;
    };
  };
B4:
  return;
}

procedure PupTop(tx, ta)
  variables tc = "";
{
PT0:
  if (ta = "greet") {
    call Greet(tx);
PT1:
    call Burst(tx);
  } else if (ta = "emit") {
    call Emit(tx);
  } else if (ta = "end") {
    call EndP(tx);
  } else if (ta = "fail") {
    call FailP(tx);
  } else if (ta = "reply") {
    pi[tx].deferred := pi[tx].deferred - 1;
    with (c \in AnswerOpts(tx)) {
      script := LogS(script, <<"reply", IName(tx), c>>);
      tc := c;
    };
PT2:
    if (tc = "data") {
      call Emit(tx);
    } else if (tc = "end") {
      call EndP(tx);
    } else {
      call FailP(tx);
    };
  };
PT3:
  return;
}

\* ---- mock nursery: one poll of a task (first poll arms the first sleep; a fire runs one turn) --
procedure Fire(ft)
{
FT0:
  now := tasks[ft].deadline;
  tasks[ft].armed := FALSE;
FT1:
  if (st[tasks[ft].node][tasks[ft].sub].cleared) {
    \* interval.rs:99-101: the flag is seen at the first tick after the disposal
    tasks[ft].finished := TRUE;
    obs := LogO(obs, Ev("taskdone", ThOf(self), "", TName(ft), "", 0));
    return;
  } else {
    st[tasks[ft].node][tasks[ft].sub].cnt := st[tasks[ft].node][tasks[ft].sub].cnt + 1;
    call Deliver("S", st[tasks[ft].node][tasks[ft].sub].sink,
                 MsgD(st[tasks[ft].node][tasks[ft].sub].cnt - 1));
  };
FT2:
  \* loop back to nursery.sleep(period).await
  obs := LogO(obs, Ev("sleep", ThOf(self), "", TName(ft), "", Node(tasks[ft].node).period));
  tasks[ft] := [tasks[ft] EXCEPT !.armed = TRUE, !.deadline = now + Node(tasks[ft].node).period];
  return;
}

\* ============================================================================================
\* Top level: the environment's event loop
\* ============================================================================================
process (Main = 0)
  variables act = <<>>, sj = 0;
{
M0:
  while (ntop < MaxTop /\ ~panicked) {
    with (a \in (IF IsThr THEN {} ELSE {<<"", "stop">>}) \cup EnabledTop) {
      script := LogS(script, <<"top", a[1], a[2]>>);
      act := a;
    };
M1:
    if (act[2] = "stop") {
      goto MDone;
    } else {
      ntop := ntop + 1;
      obs := LogO(obs, Ev("top", 0, "", act[1], act[2], 0));
    };
M2:
    if (act[2] = "attach") {
      sk[KOfName(act[1])].attached := TRUE;
      if (SinkKind(KOfName(act[1])) = "probe") {
        call Deliver("S", Ref(CFG.root, "src", 0, 0), MsgH(Ref(0, "K", KOfName(act[1]), 0)));
      } else {
        call Deliver("S", Ref(CFG.root, "src", 0, 0), MsgH(Ref(0, "F", KOfName(act[1]), 0)));
      };
    } else if (act[2] = "fire") {
      call Fire(TOfName(act[1]));
    } else if (IsKName(act[1])) {
      call SinkAct(KOfName(act[1]), act[2]);
    } else {
      call PupTop(IxOfName(act[1]), act[2]);
    };
M3:
    \* the executor polls every task spawned during this step for the first time
    sj := 1;
M4:
    while (sj <= Len(tasks)) {
      if (~tasks[sj].started) {
        obs := LogO(obs, Ev("sleep", 0, "", TName(sj), "", Node(tasks[sj].node).period));
        tasks[sj] := [tasks[sj] EXCEPT !.started = TRUE, !.armed = TRUE,
                                       !.deadline = now + Node(tasks[sj].node).period];
      };
      sj := sj + 1;
    };
  };
MDone:
  if (IsThr /\ ~panicked) {
    \* setup (subscription, greetings) is over: the member threads run
    obs := LogO(obs, Ev("top", 0, "", "", "threads", 0));
    started := TRUE;
MWait:
    await \A t \in 1..Len(CFG.thr) : pc[t] = "Done";
  };
MFin:
  done := TRUE;
}

\* ---- member threads (C18/C19): thread t performs the t-th program of cfg.thr ------------------
process (Thr \in 1..NThr)
  variables tk = 0;
{
th_start:
  await started /\ self <= Len(CFG.thr);
TH0:
  if (CFG.thr[self].greet /\ pi[InstOfPid(CFG.thr[self].pid)].pending) {
    call Greet(InstOfPid(CFG.thr[self].pid));
  };
TH1:
  while (tk < CFG.thr[self].data /\ PupLive(InstOfPid(CFG.thr[self].pid))) {
    \* a conformant member does not begin an emission once it was stopped
    call Emit(InstOfPid(CFG.thr[self].pid));
TH2:
    tk := tk + 1;
  };
TH3:
  if (CFG.thr[self].end # "none" /\ PupLive(InstOfPid(CFG.thr[self].pid))) {
    if (CFG.thr[self].end = "E") {
      call FailP(InstOfPid(CFG.thr[self].pid));
    } else {
      call EndP(InstOfPid(CFG.thr[self].pid));
    };
  };
TH4:
  skip;
}

} *)
\* BEGIN TRANSLATION
CONSTANT defaultInitValue
VARIABLES pc, ci, st, nd, sk, pi, fi, tasks, now, obs, script, ntop, panicked, 
          started, mon, done, stack

(* define statement *)
CFG      == CFGS[ci]
N        == Len(CFG.nodes)
Node(n)  == CFG.nodes[n]
Kind(n)  == Node(n).kind
Ups(n)   == Node(n).ups
NSinks   == Len(CFG.sinks)
MaxData  == CFG.maxData
MaxTop   == CFG.maxTop
MaxPull  == CFG.maxPull



InitSt(n, sink) ==
  LET k == Kind(n) IN
  CASE k = "map"     -> [sink |-> sink, utb |-> NoRef]
    [] k = "filter"  -> [sink |-> sink, utb |-> NoRef]
    [] k = "scan"    -> [sink |-> sink, utb |-> NoRef, acc |-> Node(n).seed]
    [] k = "take"    -> [sink |-> sink, utb |-> NoRef, taken |-> 0, end |-> FALSE]
    [] k = "skip"    -> [sink |-> sink, utb |-> NoRef, skipped |-> 0]
    [] k = "merge"   -> [sink |-> sink, tbs |-> [q \in 1..Len(Ups(n)) |-> NoRef],
                         start |-> 0, endc |-> 0, ended |-> FALSE]
    [] k = "concat"  -> [sink |-> sink, utb |-> NoRef, i |-> 0, gotpull |-> FALSE]
    [] k = "combine" -> [sink |-> sink, tbs |-> [q \in 1..Len(Ups(n)) |-> NoRef],
                         nstart |-> Len(Ups(n)), ndata |-> Len(Ups(n)), nend |-> Len(Ups(n)),
                         has |-> [q \in 1..Len(Ups(n)) |-> FALSE], ver |-> 0,
                         vals |-> [q \in 1..Len(Ups(n)) |-> 0]]
    [] k \in {"flatten", "flatmap"} -> [sink |-> sink, otb |-> NoRef, itb |-> NoRef]
    [] k = "share"   -> [sink |-> sink]
    [] k = "interval" -> [sink |-> sink, cnt |-> 0, cleared |-> FALSE]
    [] OTHER -> [sink |-> sink]


InitNd(n) == IF Kind(n) = "share" THEN [sinks |-> <<>>, utb |-> NoRef] ELSE [x |-> 0]

IsPuppet(n) == Kind(n) \in {"puppet", "puppet_outer"}
NodeOfPid(p) == CHOOSE n \in 1..N : IsPuppet(n) /\ Node(n).pid = p
PupMode(p) == Node(NodeOfPid(p)).mode
PupLate(p) == Node(NodeOfPid(p)).late

IsEnvRef(r) == r.r \in {"K", "ptb"} \/ (r.r = "src" /\ r.n > 0 /\ IsPuppet(r.n))
SinkKind(k) == CFG.sinks[k]


LogO(o, e) == IF KeepObs THEN Append(o, e) ELSE o
LogS(s, e) == IF KeepObs THEN Append(s, e) ELSE s

S(r)  == st[r.n][r.s]
IName(ix) == PName(pi[ix].pup, pi[ix].inst)
PupLive(ix) == pi[ix].greeted /\ ~pi[ix].ended /\ ~pi[ix].stopped
SinkLive(k) == sk[k].attached /\ sk[k].greeted /\ ~sk[k].ended /\ ~sk[k].disposed


SinkOpts(k, top) ==
    (IF top THEN {} ELSE {"none"})
    \cup (IF sk[k].pulls < MaxPull /\ (~CFG.c14 \/ sk[k].credit > 0) THEN {"pull"} ELSE {})
    \cup {"term"}
    \cup (IF CFG.sinkErr THEN {"err"} ELSE {})


    \cup (IF ~top /\ CFG.cross /\ ntop < MaxTop
          THEN {"x attach " \o KName(j) : j \in {q \in 1..NSinks : q # k /\ ~sk[q].attached
                                                                   /\ (q = 1 \/ sk[q-1].attached)}}

               \cup {"x pull " \o KName(j) : j \in {q \in 1..NSinks : q # k /\ SinkLive(q) /\ sk[q].busy = 0
                                                                            /\ sk[q].pulls < MaxPull}}
               \cup {"x term " \o KName(j) : j \in {q \in 1..NSinks : q # k /\ SinkLive(q) /\ sk[q].busy = 0}}
          ELSE {})


    \cup (IF ~top /\ CFG.reentrant
          THEN {"kick " \o IName(ix) : ix \in {q \in 1..Len(pi) : PupLive(q) /\ PupMode(pi[q].pup) # "pull"
                                                                 /\ pi[q].sent < MaxData}}

               \cup {"kickgreet " \o IName(ix) : ix \in {q \in 1..Len(pi) : pi[q].pending}}

               \cup {"kickend " \o IName(ix) : ix \in {q \in 1..Len(pi) : PupLive(q) /\ PupMode(pi[q].pup) # "pull"}}
               \cup (IF CFG.allowFail
                     THEN {"kickfail " \o IName(ix) : ix \in {q \in 1..Len(pi) : PupLive(q) /\ PupMode(pi[q].pup) # "pull"}}
                     ELSE {})
          ELSE {})



EndHandlerOpts(k) == SinkOpts(k, FALSE) \ {"none", "pull", "term", "err"}


ThrGreets(p) == \E t \in 1..Len(CFG.thr) : CFG.thr[t].pid = p /\ CFG.thr[t].greet
SubOpts(p) == IF Len(CFG.thr) > 0 THEN (IF ThrGreets(p) THEN {"later"} ELSE {"now"})
              ELSE {"now"} \cup (IF PupLate(p) THEN {"later"} ELSE {})
AnswerOpts(ix) == (IF pi[ix].sent < MaxData THEN {"data"} ELSE {}) \cup {"end"}
                  \cup (IF CFG.allowFail THEN {"err"} ELSE {})
BurstOpts(ix) == {"stop"} \cup AnswerOpts(ix)
PullOpts(ix) == LET md == PupMode(pi[ix].pup) IN
    (IF md # "pull" THEN {"ignore"} ELSE {})
    \cup (IF md # "push" THEN AnswerOpts(ix) \cup {"defer"} ELSE {})

    \cup (IF md = "any" /\ pi[ix].sent < MaxData THEN {"dataend"} ELSE {})
PupTopOpts(ix) == LET md == PupMode(pi[ix].pup) IN
    (IF pi[ix].pending THEN {"greet"} ELSE {})
    \cup (IF PupLive(ix) /\ md # "pull"
          THEN (IF pi[ix].sent < MaxData THEN {"emit"} ELSE {}) \cup {"end"}
               \cup (IF CFG.allowFail THEN {"fail"} ELSE {})
          ELSE {})
    \cup (IF PupLive(ix) /\ pi[ix].deferred > 0 THEN {"reply"} ELSE {})
SpawnOpts == {"ok"} \cup (IF CFG.allowFail THEN {"Spawn", "Closed"} ELSE {})
ArmedMin == IF \E t \in 1..Len(tasks) : tasks[t].armed
            THEN CHOOSE d \in {tasks[t].deadline : t \in {u \in 1..Len(tasks) : tasks[u].armed}} :
                   \A t \in 1..Len(tasks) : tasks[t].armed => d <= tasks[t].deadline
            ELSE 0
Fireable == {t \in 1..Len(tasks) : tasks[t].armed /\ tasks[t].deadline = ArmedMin}


EnabledTop ==
    {<<KName(k), "attach">> : k \in {q \in 1..NSinks : ~sk[q].attached /\ (q = 1 \/ sk[q-1].attached)}}
    \cup UNION {{<<KName(k), a>> : a \in SinkOpts(k, TRUE)} :
                   k \in {q \in 1..NSinks : SinkLive(q) /\ SinkKind(q) = "probe"}}
    \cup UNION {{<<IName(ix), a>> : a \in PupTopOpts(ix)} : ix \in 1..Len(pi)}
    \cup {<<TName(t), "fire">> : t \in Fireable}

KOfName(nm) == CHOOSE k \in 1..NSinks : KName(k) = nm
IxOfName(nm) == CHOOSE ix \in 1..Len(pi) : IName(ix) = nm
TOfName(nm) == CHOOSE t \in 1..Len(tasks) : TName(t) = nm
IsKName(nm) == \E k \in 1..NSinks : KName(k) = nm
IsIName(nm) == \E ix \in 1..Len(pi) : IName(ix) = nm

ThOf(slf) == slf
IsThr == Len(CFG.thr) > 0
InstOfPid(p) == CHOOSE ix \in 1..Len(pi) : pi[ix].pup = p /\ \A q \in 1..(ix - 1) : pi[q].pup # p

SentVals(ix) == {10 * pi[ix].pup + q : q \in 1..pi[ix].sent}

MonRecv(mn, mm) ==
  IF mm.t = "H" THEN [mn EXCEPT !.greets = @ + 1]
  ELSE IF mm.t = "D" THEN
    [mn EXCEPT !.open = @ + 1, !.ndata = @ + 1, !.seen = @ \cup {mm.v},
               !.bad = @ \cup (IF mn.ends > 0 THEN {"data_after_end"} ELSE {})
                         \cup (IF Kind(CFG.root) = "merge" /\ mm.v \in mn.seen THEN {"data_dup"} ELSE {})
                         \cup (IF Kind(CFG.root) = "combine"
                                  /\ \E q \in 1..Len(mm.v) : ~(mm.v[q] \in SentVals(InstOfPid(Node(Ups(CFG.root)[q]).pid)))
                               THEN {"foreign_value"} ELSE {})]
  ELSE IF mm.t = "T" THEN
    [mn EXCEPT !.ends = @ + 1,
               !.bad = @ \cup (IF mn.open > 0 THEN {"end_during_data"} ELSE {})
                         \cup (IF mn.ends > 0 THEN {"end_twice"} ELSE {})]
  ELSE IF mm.t = "E" THEN [mn EXCEPT !.errs = @ + 1]
  ELSE mn

VARIABLES fr, to, m, lg, sx, jx, ch, lv, snap, ka, ca, gx, ex, nx, fx, bx, bc, 
          tx, ta, tc, ft, act, sj, tk

vars == << pc, ci, st, nd, sk, pi, fi, tasks, now, obs, script, ntop, 
           panicked, started, mon, done, stack, fr, to, m, lg, sx, jx, ch, lv, 
           snap, ka, ca, gx, ex, nx, fx, bx, bc, tx, ta, tc, ft, act, sj, tk
        >>

ProcSet == {0} \cup (1..NThr)

Init == (* Global variables *)
        /\ ci \in 1..Len(CFGS)
        /\ st = [n \in 1..N |-> <<>>]
        /\ nd = [n \in 1..N |-> InitNd(n)]
        /\ sk = [k \in 1..NSinks |-> [attached |-> FALSE, greeted |-> FALSE, ended |-> FALSE,
                                      disposed |-> FALSE, pulls |-> 0, credit |-> 0, busy |-> 0, tb |-> NoRef]]
        /\ pi = <<>>
        /\ fi = <<>>
        /\ tasks = <<>>
        /\ now = 0
        /\ obs = <<>>
        /\ script = <<>>
        /\ ntop = 0
        /\ panicked = FALSE
        /\ started = FALSE
        /\ mon = [greets |-> 0, ends |-> 0, errs |-> 0, open |-> 0, ndata |-> 0, seen |-> {}, bad |-> {}]
        /\ done = FALSE
        (* Procedure Deliver *)
        /\ fr = [ self \in ProcSet |-> defaultInitValue]
        /\ to = [ self \in ProcSet |-> defaultInitValue]
        /\ m = [ self \in ProcSet |-> defaultInitValue]
        /\ lg = [ self \in ProcSet |-> FALSE]
        /\ sx = [ self \in ProcSet |-> 0]
        /\ jx = [ self \in ProcSet |-> 0]
        /\ ch = [ self \in ProcSet |-> ""]
        /\ lv = [ self \in ProcSet |-> 0]
        /\ snap = [ self \in ProcSet |-> <<>>]
        (* Procedure SinkAct *)
        /\ ka = [ self \in ProcSet |-> defaultInitValue]
        /\ ca = [ self \in ProcSet |-> defaultInitValue]
        (* Procedure Greet *)
        /\ gx = [ self \in ProcSet |-> defaultInitValue]
        (* Procedure Emit *)
        /\ ex = [ self \in ProcSet |-> defaultInitValue]
        (* Procedure EndP *)
        /\ nx = [ self \in ProcSet |-> defaultInitValue]
        (* Procedure FailP *)
        /\ fx = [ self \in ProcSet |-> defaultInitValue]
        (* Procedure Burst *)
        /\ bx = [ self \in ProcSet |-> defaultInitValue]
        /\ bc = [ self \in ProcSet |-> ""]
        (* Procedure PupTop *)
        /\ tx = [ self \in ProcSet |-> defaultInitValue]
        /\ ta = [ self \in ProcSet |-> defaultInitValue]
        /\ tc = [ self \in ProcSet |-> ""]
        (* Procedure Fire *)
        /\ ft = [ self \in ProcSet |-> defaultInitValue]
        (* Process Main *)
        /\ act = <<>>
        /\ sj = 0
        (* Process Thr *)
        /\ tk = [self \in 1..NThr |-> 0]
        /\ stack = [self \in ProcSet |-> << >>]
        /\ pc = [self \in ProcSet |-> CASE self = 0 -> "M0"
                                        [] self \in 1..NThr -> "th_start"]

DStart(self) == /\ pc[self] = "DStart"
                /\ IF to[self].r = "src" /\ IsPuppet(to[self].n)
                      THEN /\ sx' = [sx EXCEPT ![self] = Len(pi) + 1]
                           /\ lg' = [lg EXCEPT ![self] = TRUE]
                           /\ obs' = LogO(obs, Ev("c", ThOf(self), fr[self],
                                                  PName(Node(to[self].n).pid, Cardinality({q \in 1..Len(pi) : pi[q].pup = Node(to[self].n).pid}) + 1),
                                                  "Sub", Node(to[self].n).pid))
                           /\ pi' = Append(pi, [pup |-> Node(to[self].n).pid,
                                                inst |-> Cardinality({q \in 1..Len(pi) : pi[q].pup = Node(to[self].n).pid}) + 1,
                                                node |-> to[self].n, sink |-> m[self].tb, greeted |-> FALSE, pending |-> FALSE,
                                                ended |-> FALSE, stopped |-> FALSE, stops |-> 0, sent |-> 0, deferred |-> 0])
                      ELSE /\ IF to[self].r = "ptb"
                                 THEN /\ lg' = [lg EXCEPT ![self] = TRUE]
                                      /\ obs' = LogO(obs, Ev("c", ThOf(self), fr[self], IName(to[self].s), m[self].t, m[self].v))
                                 ELSE /\ IF to[self].r = "K"
                                            THEN /\ lg' = [lg EXCEPT ![self] = TRUE]
                                                 /\ obs' = LogO(obs, Ev("c", ThOf(self), fr[self], KName(to[self].s), m[self].t, m[self].v))
                                            ELSE /\ IF to[self].r = "F" /\ SinkKind(to[self].s) = "foreach"
                                                       THEN /\ lg' = [lg EXCEPT ![self] = TRUE]
                                                            /\ obs' = LogO(obs, Ev("c", ThOf(self), "S", KName(to[self].s), m[self].t, m[self].v))
                                                       ELSE /\ IF fr[self] # "S"
                                                                  THEN /\ lg' = [lg EXCEPT ![self] = TRUE]
                                                                       /\ obs' = LogO(obs, Ev("c", ThOf(self), fr[self], "S", m[self].t, m[self].v))
                                                                  ELSE /\ TRUE
                                                                       /\ UNCHANGED << obs, 
                                                                                       lg >>
                           /\ UNCHANGED << pi, sx >>
                /\ pc' = [pc EXCEPT ![self] = "DDisp"]
                /\ UNCHANGED << ci, st, nd, sk, fi, tasks, now, script, ntop, 
                                panicked, started, mon, done, stack, fr, to, m, 
                                jx, ch, lv, snap, ka, ca, gx, ex, nx, fx, bx, 
                                bc, tx, ta, tc, ft, act, sj, tk >>

DDisp(self) == /\ pc[self] = "DDisp"
               /\ IF to[self].r = "K"
                     THEN /\ IF m[self].t = "H"
                                THEN /\ sk' = [sk EXCEPT ![to[self].s] = [sk[to[self].s] EXCEPT !.greeted = TRUE, !.credit = 1, !.tb = m[self].tb, !.busy = @ + 1]]
                                ELSE /\ IF m[self].t = "D"
                                           THEN /\ sk' = [sk EXCEPT ![to[self].s] = [sk[to[self].s] EXCEPT !.credit = 1, !.busy = @ + 1]]
                                           ELSE /\ IF IsEnd(m[self])
                                                      THEN /\ sk' = [sk EXCEPT ![to[self].s] = [sk[to[self].s] EXCEPT !.ended = TRUE, !.busy = @ + 1]]
                                                      ELSE /\ sk' = [sk EXCEPT ![to[self].s].busy = sk[to[self].s].busy + 1]
                          /\ IF IsThr
                                THEN /\ mon' = MonRecv(mon, m[self])
                                ELSE /\ TRUE
                                     /\ mon' = mon
                          /\ pc' = [pc EXCEPT ![self] = "K1"]
                          /\ UNCHANGED << st, nd, pi, fi, tasks, obs, script, 
                                          panicked, stack, fr, to, m, lg, sx, 
                                          jx, ch, lv, snap >>
                     ELSE /\ IF to[self].r = "src" /\ IsPuppet(to[self].n)
                                THEN /\ \E c \in SubOpts(Node(to[self].n).pid):
                                          /\ script' = LogS(script, <<"sub", IName(sx[self]), c>>)
                                          /\ ch' = [ch EXCEPT ![self] = c]
                                     /\ pc' = [pc EXCEPT ![self] = "P1"]
                                     /\ UNCHANGED << st, nd, sk, pi, fi, tasks, 
                                                     obs, panicked, stack, fr, 
                                                     to, m, lg, sx, jx, lv, 
                                                     snap >>
                                ELSE /\ IF to[self].r = "ptb"
                                           THEN /\ IF m[self].t = "P"
                                                      THEN /\ IF PupLive(to[self].s)
                                                                 THEN /\ \E c \in PullOpts(to[self].s):
                                                                           /\ script' = LogS(script, <<"onpull", IName(to[self].s), c>>)
                                                                           /\ ch' = [ch EXCEPT ![self] = c]
                                                                 ELSE /\ ch' = [ch EXCEPT ![self] = "dead"]
                                                                      /\ UNCHANGED script
                                                           /\ pi' = pi
                                                      ELSE /\ IF IsEnd(m[self])
                                                                 THEN /\ pi' = [pi EXCEPT ![to[self].s] = [pi[to[self].s] EXCEPT !.stopped = TRUE, !.stops = @ + 1]]
                                                                      /\ IF CFG.reentrant /\ \E q \in 1..Len(pi') : pi'[q].pending
                                                                            THEN /\ \E c \in {"none"} \cup {"kickgreet " \o IName(q) : q \in {q2 \in 1..Len(pi') : pi'[q2].pending}}:
                                                                                      /\ script' = LogS(script, <<"onstop", IName(to[self].s), c>>)
                                                                                      /\ ch' = [ch EXCEPT ![self] = c]
                                                                            ELSE /\ ch' = [ch EXCEPT ![self] = "x"]
                                                                                 /\ UNCHANGED script
                                                                 ELSE /\ ch' = [ch EXCEPT ![self] = "x"]
                                                                      /\ UNCHANGED << pi, 
                                                                                      script >>
                                                /\ pc' = [pc EXCEPT ![self] = "T1"]
                                                /\ UNCHANGED << st, nd, sk, fi, 
                                                                tasks, obs, 
                                                                panicked, 
                                                                stack, fr, to, 
                                                                m, lg, sx, jx, 
                                                                lv, snap >>
                                           ELSE /\ IF to[self].r = "F"
                                                      THEN /\ IF m[self].t = "H"
                                                                 THEN /\ sk' = [sk EXCEPT ![to[self].s].tb = m[self].tb]
                                                                      /\ pc' = [pc EXCEPT ![self] = "FE1"]
                                                                      /\ UNCHANGED << obs, 
                                                                                      panicked >>
                                                                 ELSE /\ IF m[self].t = "D"
                                                                            THEN /\ obs' = LogO(obs, Ev("fn", ThOf(self), "", "F" \o ToString(to[self].s), "", m[self].v))
                                                                                 /\ pc' = [pc EXCEPT ![self] = "FE3"]
                                                                                 /\ UNCHANGED panicked
                                                                            ELSE /\ IF m[self].t = "P"
                                                                                       THEN /\ obs' = LogO(obs \o [q \in 1..OpenCount(obs, 1, 0) |-> RetEv(ThOf(self))],
                                                                                                           Ev("panic", ThOf(self), "", "", "", 0))
                                                                                            /\ panicked' = TRUE
                                                                                            /\ pc' = [pc EXCEPT ![self] = "Halt"]
                                                                                       ELSE /\ pc' = [pc EXCEPT ![self] = "Ret"]
                                                                                            /\ UNCHANGED << obs, 
                                                                                                            panicked >>
                                                                      /\ sk' = sk
                                                           /\ UNCHANGED << st, 
                                                                           nd, 
                                                                           fi, 
                                                                           tasks, 
                                                                           script, 
                                                                           stack, 
                                                                           fr, 
                                                                           to, 
                                                                           m, 
                                                                           lg, 
                                                                           sx, 
                                                                           jx, 
                                                                           ch, 
                                                                           lv, 
                                                                           snap >>
                                                      ELSE /\ IF to[self].r = "src" /\ Kind(to[self].n) = "from_iter"
                                                                 THEN /\ IF m[self].t = "H"
                                                                            THEN /\ sx' = [sx EXCEPT ![self] = Len(fi) + 1]
                                                                                 /\ obs' = LogO(obs, Ev("clone", ThOf(self), "",
                                                                                                        "I" \o ToString(to[self].n) \o "#" \o ToString(Cardinality({q \in 1..Len(fi) : fi[q].name # "" /\ fi[q].node = to[self].n}) + 1),
                                                                                                        "", 0))
                                                                                 /\ fi' = Append(fi, [NewFi(m[self].tb, Node(to[self].n).items, Node(to[self].n).unbounded, Node(to[self].n).limit,
                                                                                                            "I" \o ToString(to[self].n) \o "#" \o ToString(Cardinality({q \in 1..Len(fi) : fi[q].name # "" /\ fi[q].node = to[self].n}) + 1))
                                                                                                      EXCEPT !.node = to[self].n])
                                                                                 /\ pc' = [pc EXCEPT ![self] = "FR1"]
                                                                            ELSE /\ pc' = [pc EXCEPT ![self] = "Ret"]
                                                                                 /\ UNCHANGED << fi, 
                                                                                                 obs, 
                                                                                                 sx >>
                                                                      /\ UNCHANGED << st, 
                                                                                      nd, 
                                                                                      tasks, 
                                                                                      script, 
                                                                                      panicked, 
                                                                                      stack, 
                                                                                      fr, 
                                                                                      to, 
                                                                                      m, 
                                                                                      lg, 
                                                                                      jx, 
                                                                                      ch, 
                                                                                      lv, 
                                                                                      snap >>
                                                                 ELSE /\ IF to[self].r = "fitb"
                                                                            THEN /\ IF fi[to[self].s].completed
                                                                                       THEN /\ pc' = [pc EXCEPT ![self] = "Ret"]
                                                                                            /\ UNCHANGED << fi, 
                                                                                                            obs, 
                                                                                                            panicked >>
                                                                                       ELSE /\ IF m[self].t \in {"H", "D"}
                                                                                                  THEN /\ obs' = LogO(obs \o [q \in 1..OpenCount(obs, 1, 0) |-> RetEv(ThOf(self))],
                                                                                                                      Ev("panic", ThOf(self), "", "", "", 0))
                                                                                                       /\ panicked' = TRUE
                                                                                                       /\ pc' = [pc EXCEPT ![self] = "Halt"]
                                                                                                       /\ fi' = fi
                                                                                                  ELSE /\ IF m[self].t = "P"
                                                                                                             THEN /\ fi' = [fi EXCEPT ![to[self].s].gotpull = TRUE]
                                                                                                                  /\ pc' = [pc EXCEPT ![self] = "FR3"]
                                                                                                             ELSE /\ fi' = [fi EXCEPT ![to[self].s].completed = TRUE]
                                                                                                                  /\ pc' = [pc EXCEPT ![self] = "Ret"]
                                                                                                       /\ UNCHANGED << obs, 
                                                                                                                       panicked >>
                                                                                 /\ UNCHANGED << st, 
                                                                                                 nd, 
                                                                                                 tasks, 
                                                                                                 script, 
                                                                                                 stack, 
                                                                                                 fr, 
                                                                                                 to, 
                                                                                                 m, 
                                                                                                 lg, 
                                                                                                 sx, 
                                                                                                 jx, 
                                                                                                 ch, 
                                                                                                 lv, 
                                                                                                 snap >>
                                                                            ELSE /\ IF Kind(to[self].n) = "map"
                                                                                       THEN /\ IF to[self].r = "src"
                                                                                                  THEN /\ IF m[self].t = "H"
                                                                                                             THEN /\ sx' = [sx EXCEPT ![self] = Len(st[to[self].n]) + 1]
                                                                                                                  /\ st' = [st EXCEPT ![to[self].n] = Append(st[to[self].n], InitSt(to[self].n, m[self].tb))]
                                                                                                                  /\ pc' = [pc EXCEPT ![self] = "MP1"]
                                                                                                             ELSE /\ pc' = [pc EXCEPT ![self] = "Ret"]
                                                                                                                  /\ UNCHANGED << st, 
                                                                                                                                  sx >>
                                                                                                       /\ UNCHANGED << obs, 
                                                                                                                       panicked, 
                                                                                                                       stack, 
                                                                                                                       fr, 
                                                                                                                       to, 
                                                                                                                       m, 
                                                                                                                       lg, 
                                                                                                                       jx, 
                                                                                                                       ch, 
                                                                                                                       lv, 
                                                                                                                       snap >>
                                                                                                  ELSE /\ IF to[self].r = "up"
                                                                                                             THEN /\ IF m[self].t = "H"
                                                                                                                        THEN /\ st' = [st EXCEPT ![to[self].n][to[self].s].utb = m[self].tb]
                                                                                                                             /\ pc' = [pc EXCEPT ![self] = "MP3"]
                                                                                                                             /\ UNCHANGED << obs, 
                                                                                                                                             panicked, 
                                                                                                                                             stack, 
                                                                                                                                             fr, 
                                                                                                                                             to, 
                                                                                                                                             m, 
                                                                                                                                             lg, 
                                                                                                                                             sx, 
                                                                                                                                             jx, 
                                                                                                                                             ch, 
                                                                                                                                             lv, 
                                                                                                                                             snap >>
                                                                                                                        ELSE /\ IF m[self].t = "D"
                                                                                                                                   THEN /\ obs' = LogO(obs, Ev("fn", ThOf(self), "", FnName(to[self].n), "", m[self].v))
                                                                                                                                        /\ pc' = [pc EXCEPT ![self] = "MP5"]
                                                                                                                                        /\ UNCHANGED << panicked, 
                                                                                                                                                        stack, 
                                                                                                                                                        fr, 
                                                                                                                                                        to, 
                                                                                                                                                        m, 
                                                                                                                                                        lg, 
                                                                                                                                                        sx, 
                                                                                                                                                        jx, 
                                                                                                                                                        ch, 
                                                                                                                                                        lv, 
                                                                                                                                                        snap >>
                                                                                                                                   ELSE /\ IF m[self].t = "P"
                                                                                                                                              THEN /\ obs' = LogO(obs \o [q \in 1..OpenCount(obs, 1, 0) |-> RetEv(ThOf(self))],
                                                                                                                                                                  Ev("panic", ThOf(self), "", "", "", 0))
                                                                                                                                                   /\ panicked' = TRUE
                                                                                                                                                   /\ pc' = [pc EXCEPT ![self] = "Halt"]
                                                                                                                                                   /\ UNCHANGED << stack, 
                                                                                                                                                                   fr, 
                                                                                                                                                                   to, 
                                                                                                                                                                   m, 
                                                                                                                                                                   lg, 
                                                                                                                                                                   sx, 
                                                                                                                                                                   jx, 
                                                                                                                                                                   ch, 
                                                                                                                                                                   lv, 
                                                                                                                                                                   snap >>
                                                                                                                                              ELSE /\ /\ fr' = [fr EXCEPT ![self] = "S"]
                                                                                                                                                      /\ m' = [m EXCEPT ![self] = m[self]]
                                                                                                                                                      /\ stack' = [stack EXCEPT ![self] = << [ procedure |->  "Deliver",
                                                                                                                                                                                               pc        |->  "MP7",
                                                                                                                                                                                               lg        |->  lg[self],
                                                                                                                                                                                               sx        |->  sx[self],
                                                                                                                                                                                               jx        |->  jx[self],
                                                                                                                                                                                               ch        |->  ch[self],
                                                                                                                                                                                               lv        |->  lv[self],
                                                                                                                                                                                               snap      |->  snap[self],
                                                                                                                                                                                               fr        |->  fr[self],
                                                                                                                                                                                               to        |->  to[self],
                                                                                                                                                                                               m         |->  m[self] ] >>
                                                                                                                                                                                           \o stack[self]]
                                                                                                                                                      /\ to' = [to EXCEPT ![self] = S(to[self]).sink]
                                                                                                                                                   /\ lg' = [lg EXCEPT ![self] = FALSE]
                                                                                                                                                   /\ sx' = [sx EXCEPT ![self] = 0]
                                                                                                                                                   /\ jx' = [jx EXCEPT ![self] = 0]
                                                                                                                                                   /\ ch' = [ch EXCEPT ![self] = ""]
                                                                                                                                                   /\ lv' = [lv EXCEPT ![self] = 0]
                                                                                                                                                   /\ snap' = [snap EXCEPT ![self] = <<>>]
                                                                                                                                                   /\ pc' = [pc EXCEPT ![self] = "DStart"]
                                                                                                                                                   /\ UNCHANGED << obs, 
                                                                                                                                                                   panicked >>
                                                                                                                             /\ st' = st
                                                                                                             ELSE /\ IF m[self].t \in {"H", "D"}
                                                                                                                        THEN /\ obs' = LogO(obs \o [q \in 1..OpenCount(obs, 1, 0) |-> RetEv(ThOf(self))],
                                                                                                                                            Ev("panic", ThOf(self), "", "", "", 0))
                                                                                                                             /\ panicked' = TRUE
                                                                                                                             /\ pc' = [pc EXCEPT ![self] = "Halt"]
                                                                                                                             /\ UNCHANGED << stack, 
                                                                                                                                             fr, 
                                                                                                                                             to, 
                                                                                                                                             m, 
                                                                                                                                             lg, 
                                                                                                                                             sx, 
                                                                                                                                             jx, 
                                                                                                                                             ch, 
                                                                                                                                             lv, 
                                                                                                                                             snap >>
                                                                                                                        ELSE /\ /\ fr' = [fr EXCEPT ![self] = "S"]
                                                                                                                                /\ m' = [m EXCEPT ![self] = m[self]]
                                                                                                                                /\ stack' = [stack EXCEPT ![self] = << [ procedure |->  "Deliver",
                                                                                                                                                                         pc        |->  "MP8",
                                                                                                                                                                         lg        |->  lg[self],
                                                                                                                                                                         sx        |->  sx[self],
                                                                                                                                                                         jx        |->  jx[self],
                                                                                                                                                                         ch        |->  ch[self],
                                                                                                                                                                         lv        |->  lv[self],
                                                                                                                                                                         snap      |->  snap[self],
                                                                                                                                                                         fr        |->  fr[self],
                                                                                                                                                                         to        |->  to[self],
                                                                                                                                                                         m         |->  m[self] ] >>
                                                                                                                                                                     \o stack[self]]
                                                                                                                                /\ to' = [to EXCEPT ![self] = S(to[self]).utb]
                                                                                                                             /\ lg' = [lg EXCEPT ![self] = FALSE]
                                                                                                                             /\ sx' = [sx EXCEPT ![self] = 0]
                                                                                                                             /\ jx' = [jx EXCEPT ![self] = 0]
                                                                                                                             /\ ch' = [ch EXCEPT ![self] = ""]
                                                                                                                             /\ lv' = [lv EXCEPT ![self] = 0]
                                                                                                                             /\ snap' = [snap EXCEPT ![self] = <<>>]
                                                                                                                             /\ pc' = [pc EXCEPT ![self] = "DStart"]
                                                                                                                             /\ UNCHANGED << obs, 
                                                                                                                                             panicked >>
                                                                                                                  /\ st' = st
                                                                                            /\ UNCHANGED << nd, 
                                                                                                            tasks, 
                                                                                                            script >>
                                                                                       ELSE /\ IF Kind(to[self].n) = "filter"
                                                                                                  THEN /\ IF to[self].r = "src"
                                                                                                             THEN /\ IF m[self].t = "H"
                                                                                                                        THEN /\ sx' = [sx EXCEPT ![self] = Len(st[to[self].n]) + 1]
                                                                                                                             /\ st' = [st EXCEPT ![to[self].n] = Append(st[to[self].n], InitSt(to[self].n, m[self].tb))]
                                                                                                                             /\ pc' = [pc EXCEPT ![self] = "FI1"]
                                                                                                                        ELSE /\ pc' = [pc EXCEPT ![self] = "Ret"]
                                                                                                                             /\ UNCHANGED << st, 
                                                                                                                                             sx >>
                                                                                                                  /\ UNCHANGED << obs, 
                                                                                                                                  panicked, 
                                                                                                                                  stack, 
                                                                                                                                  fr, 
                                                                                                                                  to, 
                                                                                                                                  m, 
                                                                                                                                  lg, 
                                                                                                                                  jx, 
                                                                                                                                  ch, 
                                                                                                                                  lv, 
                                                                                                                                  snap >>
                                                                                                             ELSE /\ IF to[self].r = "up"
                                                                                                                        THEN /\ IF m[self].t = "H"
                                                                                                                                   THEN /\ st' = [st EXCEPT ![to[self].n][to[self].s].utb = m[self].tb]
                                                                                                                                        /\ pc' = [pc EXCEPT ![self] = "FI3"]
                                                                                                                                        /\ UNCHANGED << obs, 
                                                                                                                                                        panicked, 
                                                                                                                                                        stack, 
                                                                                                                                                        fr, 
                                                                                                                                                        to, 
                                                                                                                                                        m, 
                                                                                                                                                        lg, 
                                                                                                                                                        sx, 
                                                                                                                                                        jx, 
                                                                                                                                                        ch, 
                                                                                                                                                        lv, 
                                                                                                                                                        snap >>
                                                                                                                                   ELSE /\ IF m[self].t = "D"
                                                                                                                                              THEN /\ obs' = LogO(obs, Ev("fn", ThOf(self), "", FnName(to[self].n), "", m[self].v))
                                                                                                                                                   /\ pc' = [pc EXCEPT ![self] = "FI5"]
                                                                                                                                                   /\ UNCHANGED << panicked, 
                                                                                                                                                                   stack, 
                                                                                                                                                                   fr, 
                                                                                                                                                                   to, 
                                                                                                                                                                   m, 
                                                                                                                                                                   lg, 
                                                                                                                                                                   sx, 
                                                                                                                                                                   jx, 
                                                                                                                                                                   ch, 
                                                                                                                                                                   lv, 
                                                                                                                                                                   snap >>
                                                                                                                                              ELSE /\ IF m[self].t = "P"
                                                                                                                                                         THEN /\ obs' = LogO(obs \o [q \in 1..OpenCount(obs, 1, 0) |-> RetEv(ThOf(self))],
                                                                                                                                                                             Ev("panic", ThOf(self), "", "", "", 0))
                                                                                                                                                              /\ panicked' = TRUE
                                                                                                                                                              /\ pc' = [pc EXCEPT ![self] = "Halt"]
                                                                                                                                                              /\ UNCHANGED << stack, 
                                                                                                                                                                              fr, 
                                                                                                                                                                              to, 
                                                                                                                                                                              m, 
                                                                                                                                                                              lg, 
                                                                                                                                                                              sx, 
                                                                                                                                                                              jx, 
                                                                                                                                                                              ch, 
                                                                                                                                                                              lv, 
                                                                                                                                                                              snap >>
                                                                                                                                                         ELSE /\ /\ fr' = [fr EXCEPT ![self] = "S"]
                                                                                                                                                                 /\ m' = [m EXCEPT ![self] = m[self]]
                                                                                                                                                                 /\ stack' = [stack EXCEPT ![self] = << [ procedure |->  "Deliver",
                                                                                                                                                                                                          pc        |->  "FI7",
                                                                                                                                                                                                          lg        |->  lg[self],
                                                                                                                                                                                                          sx        |->  sx[self],
                                                                                                                                                                                                          jx        |->  jx[self],
                                                                                                                                                                                                          ch        |->  ch[self],
                                                                                                                                                                                                          lv        |->  lv[self],
                                                                                                                                                                                                          snap      |->  snap[self],
                                                                                                                                                                                                          fr        |->  fr[self],
                                                                                                                                                                                                          to        |->  to[self],
                                                                                                                                                                                                          m         |->  m[self] ] >>
                                                                                                                                                                                                      \o stack[self]]
                                                                                                                                                                 /\ to' = [to EXCEPT ![self] = S(to[self]).sink]
                                                                                                                                                              /\ lg' = [lg EXCEPT ![self] = FALSE]
                                                                                                                                                              /\ sx' = [sx EXCEPT ![self] = 0]
                                                                                                                                                              /\ jx' = [jx EXCEPT ![self] = 0]
                                                                                                                                                              /\ ch' = [ch EXCEPT ![self] = ""]
                                                                                                                                                              /\ lv' = [lv EXCEPT ![self] = 0]
                                                                                                                                                              /\ snap' = [snap EXCEPT ![self] = <<>>]
                                                                                                                                                              /\ pc' = [pc EXCEPT ![self] = "DStart"]
                                                                                                                                                              /\ UNCHANGED << obs, 
                                                                                                                                                                              panicked >>
                                                                                                                                        /\ st' = st
                                                                                                                        ELSE /\ IF m[self].t \in {"H", "D"} \/ S(to[self]).utb = NoRef
                                                                                                                                   THEN /\ obs' = LogO(obs \o [q \in 1..OpenCount(obs, 1, 0) |-> RetEv(ThOf(self))],
                                                                                                                                                       Ev("panic", ThOf(self), "", "", "", 0))
                                                                                                                                        /\ panicked' = TRUE
                                                                                                                                        /\ pc' = [pc EXCEPT ![self] = "Halt"]
                                                                                                                                        /\ UNCHANGED << stack, 
                                                                                                                                                        fr, 
                                                                                                                                                        to, 
                                                                                                                                                        m, 
                                                                                                                                                        lg, 
                                                                                                                                                        sx, 
                                                                                                                                                        jx, 
                                                                                                                                                        ch, 
                                                                                                                                                        lv, 
                                                                                                                                                        snap >>
                                                                                                                                   ELSE /\ /\ fr' = [fr EXCEPT ![self] = "S"]
                                                                                                                                           /\ m' = [m EXCEPT ![self] = m[self]]
                                                                                                                                           /\ stack' = [stack EXCEPT ![self] = << [ procedure |->  "Deliver",
                                                                                                                                                                                    pc        |->  "FI8",
                                                                                                                                                                                    lg        |->  lg[self],
                                                                                                                                                                                    sx        |->  sx[self],
                                                                                                                                                                                    jx        |->  jx[self],
                                                                                                                                                                                    ch        |->  ch[self],
                                                                                                                                                                                    lv        |->  lv[self],
                                                                                                                                                                                    snap      |->  snap[self],
                                                                                                                                                                                    fr        |->  fr[self],
                                                                                                                                                                                    to        |->  to[self],
                                                                                                                                                                                    m         |->  m[self] ] >>
                                                                                                                                                                                \o stack[self]]
                                                                                                                                           /\ to' = [to EXCEPT ![self] = S(to[self]).utb]
                                                                                                                                        /\ lg' = [lg EXCEPT ![self] = FALSE]
                                                                                                                                        /\ sx' = [sx EXCEPT ![self] = 0]
                                                                                                                                        /\ jx' = [jx EXCEPT ![self] = 0]
                                                                                                                                        /\ ch' = [ch EXCEPT ![self] = ""]
                                                                                                                                        /\ lv' = [lv EXCEPT ![self] = 0]
                                                                                                                                        /\ snap' = [snap EXCEPT ![self] = <<>>]
                                                                                                                                        /\ pc' = [pc EXCEPT ![self] = "DStart"]
                                                                                                                                        /\ UNCHANGED << obs, 
                                                                                                                                                        panicked >>
                                                                                                                             /\ st' = st
                                                                                                       /\ UNCHANGED << nd, 
                                                                                                                       tasks, 
                                                                                                                       script >>
                                                                                                  ELSE /\ IF Kind(to[self].n) = "scan"
                                                                                                             THEN /\ IF to[self].r = "src"
                                                                                                                        THEN /\ IF m[self].t = "H"
                                                                                                                                   THEN /\ sx' = [sx EXCEPT ![self] = Len(st[to[self].n]) + 1]
                                                                                                                                        /\ st' = [st EXCEPT ![to[self].n] = Append(st[to[self].n], InitSt(to[self].n, m[self].tb))]
                                                                                                                                        /\ pc' = [pc EXCEPT ![self] = "SC1"]
                                                                                                                                   ELSE /\ pc' = [pc EXCEPT ![self] = "Ret"]
                                                                                                                                        /\ UNCHANGED << st, 
                                                                                                                                                        sx >>
                                                                                                                             /\ UNCHANGED << obs, 
                                                                                                                                             panicked, 
                                                                                                                                             stack, 
                                                                                                                                             fr, 
                                                                                                                                             to, 
                                                                                                                                             m, 
                                                                                                                                             lg, 
                                                                                                                                             jx, 
                                                                                                                                             ch, 
                                                                                                                                             lv, 
                                                                                                                                             snap >>
                                                                                                                        ELSE /\ IF to[self].r = "up"
                                                                                                                                   THEN /\ IF m[self].t = "H"
                                                                                                                                              THEN /\ st' = [st EXCEPT ![to[self].n][to[self].s].utb = m[self].tb]
                                                                                                                                                   /\ pc' = [pc EXCEPT ![self] = "SC3"]
                                                                                                                                                   /\ UNCHANGED << obs, 
                                                                                                                                                                   panicked, 
                                                                                                                                                                   stack, 
                                                                                                                                                                   fr, 
                                                                                                                                                                   to, 
                                                                                                                                                                   m, 
                                                                                                                                                                   lg, 
                                                                                                                                                                   sx, 
                                                                                                                                                                   jx, 
                                                                                                                                                                   ch, 
                                                                                                                                                                   lv, 
                                                                                                                                                                   snap >>
                                                                                                                                              ELSE /\ IF m[self].t = "D"
                                                                                                                                                         THEN /\ obs' = LogO(obs, Ev("fn", ThOf(self), "", FnName(to[self].n), "", <<S(to[self]).acc, m[self].v>>))
                                                                                                                                                              /\ st' = [st EXCEPT ![to[self].n][to[self].s].acc = RedInt(Node(to[self].n).r, S(to[self]).acc, m[self].v)]
                                                                                                                                                              /\ pc' = [pc EXCEPT ![self] = "SC5"]
                                                                                                                                                              /\ UNCHANGED << panicked, 
                                                                                                                                                                              stack, 
                                                                                                                                                                              fr, 
                                                                                                                                                                              to, 
                                                                                                                                                                              m, 
                                                                                                                                                                              lg, 
                                                                                                                                                                              sx, 
                                                                                                                                                                              jx, 
                                                                                                                                                                              ch, 
                                                                                                                                                                              lv, 
                                                                                                                                                                              snap >>
                                                                                                                                                         ELSE /\ IF m[self].t = "P"
                                                                                                                                                                    THEN /\ obs' = LogO(obs \o [q \in 1..OpenCount(obs, 1, 0) |-> RetEv(ThOf(self))],
                                                                                                                                                                                        Ev("panic", ThOf(self), "", "", "", 0))
                                                                                                                                                                         /\ panicked' = TRUE
                                                                                                                                                                         /\ pc' = [pc EXCEPT ![self] = "Halt"]
                                                                                                                                                                         /\ UNCHANGED << stack, 
                                                                                                                                                                                         fr, 
                                                                                                                                                                                         to, 
                                                                                                                                                                                         m, 
                                                                                                                                                                                         lg, 
                                                                                                                                                                                         sx, 
                                                                                                                                                                                         jx, 
                                                                                                                                                                                         ch, 
                                                                                                                                                                                         lv, 
                                                                                                                                                                                         snap >>
                                                                                                                                                                    ELSE /\ /\ fr' = [fr EXCEPT ![self] = "S"]
                                                                                                                                                                            /\ m' = [m EXCEPT ![self] = m[self]]
                                                                                                                                                                            /\ stack' = [stack EXCEPT ![self] = << [ procedure |->  "Deliver",
                                                                                                                                                                                                                     pc        |->  "SC7",
                                                                                                                                                                                                                     lg        |->  lg[self],
                                                                                                                                                                                                                     sx        |->  sx[self],
                                                                                                                                                                                                                     jx        |->  jx[self],
                                                                                                                                                                                                                     ch        |->  ch[self],
                                                                                                                                                                                                                     lv        |->  lv[self],
                                                                                                                                                                                                                     snap      |->  snap[self],
                                                                                                                                                                                                                     fr        |->  fr[self],
                                                                                                                                                                                                                     to        |->  to[self],
                                                                                                                                                                                                                     m         |->  m[self] ] >>
                                                                                                                                                                                                                 \o stack[self]]
                                                                                                                                                                            /\ to' = [to EXCEPT ![self] = S(to[self]).sink]
                                                                                                                                                                         /\ lg' = [lg EXCEPT ![self] = FALSE]
                                                                                                                                                                         /\ sx' = [sx EXCEPT ![self] = 0]
                                                                                                                                                                         /\ jx' = [jx EXCEPT ![self] = 0]
                                                                                                                                                                         /\ ch' = [ch EXCEPT ![self] = ""]
                                                                                                                                                                         /\ lv' = [lv EXCEPT ![self] = 0]
                                                                                                                                                                         /\ snap' = [snap EXCEPT ![self] = <<>>]
                                                                                                                                                                         /\ pc' = [pc EXCEPT ![self] = "DStart"]
                                                                                                                                                                         /\ UNCHANGED << obs, 
                                                                                                                                                                                         panicked >>
                                                                                                                                                              /\ st' = st
                                                                                                                                   ELSE /\ IF m[self].t \in {"H", "D"}
                                                                                                                                              THEN /\ obs' = LogO(obs \o [q \in 1..OpenCount(obs, 1, 0) |-> RetEv(ThOf(self))],
                                                                                                                                                                  Ev("panic", ThOf(self), "", "", "", 0))
                                                                                                                                                   /\ panicked' = TRUE
                                                                                                                                                   /\ pc' = [pc EXCEPT ![self] = "Halt"]
                                                                                                                                                   /\ UNCHANGED << stack, 
                                                                                                                                                                   fr, 
                                                                                                                                                                   to, 
                                                                                                                                                                   m, 
                                                                                                                                                                   lg, 
                                                                                                                                                                   sx, 
                                                                                                                                                                   jx, 
                                                                                                                                                                   ch, 
                                                                                                                                                                   lv, 
                                                                                                                                                                   snap >>
                                                                                                                                              ELSE /\ /\ fr' = [fr EXCEPT ![self] = "S"]
                                                                                                                                                      /\ m' = [m EXCEPT ![self] = m[self]]
                                                                                                                                                      /\ stack' = [stack EXCEPT ![self] = << [ procedure |->  "Deliver",
                                                                                                                                                                                               pc        |->  "SC8",
                                                                                                                                                                                               lg        |->  lg[self],
                                                                                                                                                                                               sx        |->  sx[self],
                                                                                                                                                                                               jx        |->  jx[self],
                                                                                                                                                                                               ch        |->  ch[self],
                                                                                                                                                                                               lv        |->  lv[self],
                                                                                                                                                                                               snap      |->  snap[self],
                                                                                                                                                                                               fr        |->  fr[self],
                                                                                                                                                                                               to        |->  to[self],
                                                                                                                                                                                               m         |->  m[self] ] >>
                                                                                                                                                                                           \o stack[self]]
                                                                                                                                                      /\ to' = [to EXCEPT ![self] = S(to[self]).utb]
                                                                                                                                                   /\ lg' = [lg EXCEPT ![self] = FALSE]
                                                                                                                                                   /\ sx' = [sx EXCEPT ![self] = 0]
                                                                                                                                                   /\ jx' = [jx EXCEPT ![self] = 0]
                                                                                                                                                   /\ ch' = [ch EXCEPT ![self] = ""]
                                                                                                                                                   /\ lv' = [lv EXCEPT ![self] = 0]
                                                                                                                                                   /\ snap' = [snap EXCEPT ![self] = <<>>]
                                                                                                                                                   /\ pc' = [pc EXCEPT ![self] = "DStart"]
                                                                                                                                                   /\ UNCHANGED << obs, 
                                                                                                                                                                   panicked >>
                                                                                                                                        /\ st' = st
                                                                                                                  /\ UNCHANGED << nd, 
                                                                                                                                  tasks, 
                                                                                                                                  script >>
                                                                                                             ELSE /\ IF Kind(to[self].n) = "take"
                                                                                                                        THEN /\ IF to[self].r = "src"
                                                                                                                                   THEN /\ IF m[self].t = "H"
                                                                                                                                              THEN /\ sx' = [sx EXCEPT ![self] = Len(st[to[self].n]) + 1]
                                                                                                                                                   /\ st' = [st EXCEPT ![to[self].n] = Append(st[to[self].n], InitSt(to[self].n, m[self].tb))]
                                                                                                                                                   /\ pc' = [pc EXCEPT ![self] = "TK1"]
                                                                                                                                              ELSE /\ pc' = [pc EXCEPT ![self] = "Ret"]
                                                                                                                                                   /\ UNCHANGED << st, 
                                                                                                                                                                   sx >>
                                                                                                                                        /\ UNCHANGED << obs, 
                                                                                                                                                        panicked, 
                                                                                                                                                        stack, 
                                                                                                                                                        fr, 
                                                                                                                                                        to, 
                                                                                                                                                        m, 
                                                                                                                                                        lg, 
                                                                                                                                                        jx, 
                                                                                                                                                        ch, 
                                                                                                                                                        lv, 
                                                                                                                                                        snap >>
                                                                                                                                   ELSE /\ IF to[self].r = "up"
                                                                                                                                              THEN /\ IF m[self].t = "H"
                                                                                                                                                         THEN /\ st' = [st EXCEPT ![to[self].n][to[self].s].utb = m[self].tb]
                                                                                                                                                              /\ pc' = [pc EXCEPT ![self] = "TK3"]
                                                                                                                                                              /\ UNCHANGED << obs, 
                                                                                                                                                                              panicked >>
                                                                                                                                                         ELSE /\ IF m[self].t = "D"
                                                                                                                                                                    THEN /\ pc' = [pc EXCEPT ![self] = "tk_taken_fu"]
                                                                                                                                                                         /\ UNCHANGED << obs, 
                                                                                                                                                                                         panicked >>
                                                                                                                                                                    ELSE /\ IF m[self].t = "P"
                                                                                                                                                                               THEN /\ obs' = LogO(obs \o [q \in 1..OpenCount(obs, 1, 0) |-> RetEv(ThOf(self))],
                                                                                                                                                                                                   Ev("panic", ThOf(self), "", "", "", 0))
                                                                                                                                                                                    /\ panicked' = TRUE
                                                                                                                                                                                    /\ pc' = [pc EXCEPT ![self] = "Halt"]
                                                                                                                                                                               ELSE /\ pc' = [pc EXCEPT ![self] = "tk_src_end_st"]
                                                                                                                                                                                    /\ UNCHANGED << obs, 
                                                                                                                                                                                                    panicked >>
                                                                                                                                                              /\ st' = st
                                                                                                                                                   /\ UNCHANGED << stack, 
                                                                                                                                                                   fr, 
                                                                                                                                                                   to, 
                                                                                                                                                                   m, 
                                                                                                                                                                   lg, 
                                                                                                                                                                   sx, 
                                                                                                                                                                   jx, 
                                                                                                                                                                   ch, 
                                                                                                                                                                   lv, 
                                                                                                                                                                   snap >>
                                                                                                                                              ELSE /\ IF m[self].t \in {"H", "D"}
                                                                                                                                                         THEN /\ obs' = LogO(obs \o [q \in 1..OpenCount(obs, 1, 0) |-> RetEv(ThOf(self))],
                                                                                                                                                                             Ev("panic", ThOf(self), "", "", "", 0))
                                                                                                                                                              /\ panicked' = TRUE
                                                                                                                                                              /\ pc' = [pc EXCEPT ![self] = "Halt"]
                                                                                                                                                              /\ UNCHANGED << st, 
                                                                                                                                                                              stack, 
                                                                                                                                                                              fr, 
                                                                                                                                                                              to, 
                                                                                                                                                                              m, 
                                                                                                                                                                              lg, 
                                                                                                                                                                              sx, 
                                                                                                                                                                              jx, 
                                                                                                                                                                              ch, 
                                                                                                                                                                              lv, 
                                                                                                                                                                              snap >>
                                                                                                                                                         ELSE /\ IF m[self].t = "P"
                                                                                                                                                                    THEN /\ IF S(to[self]).taken < Node(to[self].n).n
                                                                                                                                                                               THEN /\ IF S(to[self]).utb = NoRef
                                                                                                                                                                                          THEN /\ obs' = LogO(obs \o [q \in 1..OpenCount(obs, 1, 0) |-> RetEv(ThOf(self))],
                                                                                                                                                                                                              Ev("panic", ThOf(self), "", "", "", 0))
                                                                                                                                                                                               /\ panicked' = TRUE
                                                                                                                                                                                               /\ pc' = [pc EXCEPT ![self] = "Halt"]
                                                                                                                                                                                               /\ UNCHANGED << stack, 
                                                                                                                                                                                                               fr, 
                                                                                                                                                                                                               to, 
                                                                                                                                                                                                               m, 
                                                                                                                                                                                                               lg, 
                                                                                                                                                                                                               sx, 
                                                                                                                                                                                                               jx, 
                                                                                                                                                                                                               ch, 
                                                                                                                                                                                                               lv, 
                                                                                                                                                                                                               snap >>
                                                                                                                                                                                          ELSE /\ /\ fr' = [fr EXCEPT ![self] = "S"]
                                                                                                                                                                                                  /\ m' = [m EXCEPT ![self] = m[self]]
                                                                                                                                                                                                  /\ stack' = [stack EXCEPT ![self] = << [ procedure |->  "Deliver",
                                                                                                                                                                                                                                           pc        |->  "TK7",
                                                                                                                                                                                                                                           lg        |->  lg[self],
                                                                                                                                                                                                                                           sx        |->  sx[self],
                                                                                                                                                                                                                                           jx        |->  jx[self],
                                                                                                                                                                                                                                           ch        |->  ch[self],
                                                                                                                                                                                                                                           lv        |->  lv[self],
                                                                                                                                                                                                                                           snap      |->  snap[self],
                                                                                                                                                                                                                                           fr        |->  fr[self],
                                                                                                                                                                                                                                           to        |->  to[self],
                                                                                                                                                                                                                                           m         |->  m[self] ] >>
                                                                                                                                                                                                                                       \o stack[self]]
                                                                                                                                                                                                  /\ to' = [to EXCEPT ![self] = S(to[self]).utb]
                                                                                                                                                                                               /\ lg' = [lg EXCEPT ![self] = FALSE]
                                                                                                                                                                                               /\ sx' = [sx EXCEPT ![self] = 0]
                                                                                                                                                                                               /\ jx' = [jx EXCEPT ![self] = 0]
                                                                                                                                                                                               /\ ch' = [ch EXCEPT ![self] = ""]
                                                                                                                                                                                               /\ lv' = [lv EXCEPT ![self] = 0]
                                                                                                                                                                                               /\ snap' = [snap EXCEPT ![self] = <<>>]
                                                                                                                                                                                               /\ pc' = [pc EXCEPT ![self] = "DStart"]
                                                                                                                                                                                               /\ UNCHANGED << obs, 
                                                                                                                                                                                                               panicked >>
                                                                                                                                                                               ELSE /\ pc' = [pc EXCEPT ![self] = "TK7"]
                                                                                                                                                                                    /\ UNCHANGED << obs, 
                                                                                                                                                                                                    panicked, 
                                                                                                                                                                                                    stack, 
                                                                                                                                                                                                    fr, 
                                                                                                                                                                                                    to, 
                                                                                                                                                                                                    m, 
                                                                                                                                                                                                    lg, 
                                                                                                                                                                                                    sx, 
                                                                                                                                                                                                    jx, 
                                                                                                                                                                                                    ch, 
                                                                                                                                                                                                    lv, 
                                                                                                                                                                                                    snap >>
                                                                                                                                                                         /\ st' = st
                                                                                                                                                                    ELSE /\ st' = [st EXCEPT ![to[self].n][to[self].s].end = TRUE]
                                                                                                                                                                         /\ pc' = [pc EXCEPT ![self] = "TK8"]
                                                                                                                                                                         /\ UNCHANGED << obs, 
                                                                                                                                                                                         panicked, 
                                                                                                                                                                                         stack, 
                                                                                                                                                                                         fr, 
                                                                                                                                                                                         to, 
                                                                                                                                                                                         m, 
                                                                                                                                                                                         lg, 
                                                                                                                                                                                         sx, 
                                                                                                                                                                                         jx, 
                                                                                                                                                                                         ch, 
                                                                                                                                                                                         lv, 
                                                                                                                                                                                         snap >>
                                                                                                                             /\ UNCHANGED << nd, 
                                                                                                                                             tasks, 
                                                                                                                                             script >>
                                                                                                                        ELSE /\ IF Kind(to[self].n) = "skip"
                                                                                                                                   THEN /\ IF to[self].r = "src"
                                                                                                                                              THEN /\ IF m[self].t = "H"
                                                                                                                                                         THEN /\ sx' = [sx EXCEPT ![self] = Len(st[to[self].n]) + 1]
                                                                                                                                                              /\ st' = [st EXCEPT ![to[self].n] = Append(st[to[self].n], InitSt(to[self].n, m[self].tb))]
                                                                                                                                                              /\ pc' = [pc EXCEPT ![self] = "SK1"]
                                                                                                                                                         ELSE /\ pc' = [pc EXCEPT ![self] = "Ret"]
                                                                                                                                                              /\ UNCHANGED << st, 
                                                                                                                                                                              sx >>
                                                                                                                                                   /\ UNCHANGED << obs, 
                                                                                                                                                                   panicked, 
                                                                                                                                                                   stack, 
                                                                                                                                                                   fr, 
                                                                                                                                                                   to, 
                                                                                                                                                                   m, 
                                                                                                                                                                   lg, 
                                                                                                                                                                   jx, 
                                                                                                                                                                   ch, 
                                                                                                                                                                   lv, 
                                                                                                                                                                   snap >>
                                                                                                                                              ELSE /\ IF to[self].r = "up"
                                                                                                                                                         THEN /\ IF m[self].t = "H"
                                                                                                                                                                    THEN /\ st' = [st EXCEPT ![to[self].n][to[self].s].utb = m[self].tb]
                                                                                                                                                                         /\ pc' = [pc EXCEPT ![self] = "SK3"]
                                                                                                                                                                         /\ UNCHANGED << obs, 
                                                                                                                                                                                         panicked, 
                                                                                                                                                                                         stack, 
                                                                                                                                                                                         fr, 
                                                                                                                                                                                         to, 
                                                                                                                                                                                         m, 
                                                                                                                                                                                         lg, 
                                                                                                                                                                                         sx, 
                                                                                                                                                                                         jx, 
                                                                                                                                                                                         ch, 
                                                                                                                                                                                         lv, 
                                                                                                                                                                                         snap >>
                                                                                                                                                                    ELSE /\ IF m[self].t = "D"
                                                                                                                                                                               THEN /\ IF S(to[self]).skipped < Node(to[self].n).n
                                                                                                                                                                                          THEN /\ st' = [st EXCEPT ![to[self].n][to[self].s].skipped = S(to[self]).skipped + 1]
                                                                                                                                                                                               /\ pc' = [pc EXCEPT ![self] = "SK5"]
                                                                                                                                                                                               /\ UNCHANGED << stack, 
                                                                                                                                                                                                               fr, 
                                                                                                                                                                                                               to, 
                                                                                                                                                                                                               m, 
                                                                                                                                                                                                               lg, 
                                                                                                                                                                                                               sx, 
                                                                                                                                                                                                               jx, 
                                                                                                                                                                                                               ch, 
                                                                                                                                                                                                               lv, 
                                                                                                                                                                                                               snap >>
                                                                                                                                                                                          ELSE /\ /\ fr' = [fr EXCEPT ![self] = "S"]
                                                                                                                                                                                                  /\ m' = [m EXCEPT ![self] = m[self]]
                                                                                                                                                                                                  /\ stack' = [stack EXCEPT ![self] = << [ procedure |->  "Deliver",
                                                                                                                                                                                                                                           pc        |->  "SK6",
                                                                                                                                                                                                                                           lg        |->  lg[self],
                                                                                                                                                                                                                                           sx        |->  sx[self],
                                                                                                                                                                                                                                           jx        |->  jx[self],
                                                                                                                                                                                                                                           ch        |->  ch[self],
                                                                                                                                                                                                                                           lv        |->  lv[self],
                                                                                                                                                                                                                                           snap      |->  snap[self],
                                                                                                                                                                                                                                           fr        |->  fr[self],
                                                                                                                                                                                                                                           to        |->  to[self],
                                                                                                                                                                                                                                           m         |->  m[self] ] >>
                                                                                                                                                                                                                                       \o stack[self]]
                                                                                                                                                                                                  /\ to' = [to EXCEPT ![self] = S(to[self]).sink]
                                                                                                                                                                                               /\ lg' = [lg EXCEPT ![self] = FALSE]
                                                                                                                                                                                               /\ sx' = [sx EXCEPT ![self] = 0]
                                                                                                                                                                                               /\ jx' = [jx EXCEPT ![self] = 0]
                                                                                                                                                                                               /\ ch' = [ch EXCEPT ![self] = ""]
                                                                                                                                                                                               /\ lv' = [lv EXCEPT ![self] = 0]
                                                                                                                                                                                               /\ snap' = [snap EXCEPT ![self] = <<>>]
                                                                                                                                                                                               /\ pc' = [pc EXCEPT ![self] = "DStart"]
                                                                                                                                                                                               /\ st' = st
                                                                                                                                                                                    /\ UNCHANGED << obs, 
                                                                                                                                                                                                    panicked >>
                                                                                                                                                                               ELSE /\ IF m[self].t = "P"
                                                                                                                                                                                          THEN /\ obs' = LogO(obs \o [q \in 1..OpenCount(obs, 1, 0) |-> RetEv(ThOf(self))],
                                                                                                                                                                                                              Ev("panic", ThOf(self), "", "", "", 0))
                                                                                                                                                                                               /\ panicked' = TRUE
                                                                                                                                                                                               /\ pc' = [pc EXCEPT ![self] = "Halt"]
                                                                                                                                                                                               /\ UNCHANGED << stack, 
                                                                                                                                                                                                               fr, 
                                                                                                                                                                                                               to, 
                                                                                                                                                                                                               m, 
                                                                                                                                                                                                               lg, 
                                                                                                                                                                                                               sx, 
                                                                                                                                                                                                               jx, 
                                                                                                                                                                                                               ch, 
                                                                                                                                                                                                               lv, 
                                                                                                                                                                                                               snap >>
                                                                                                                                                                                          ELSE /\ /\ fr' = [fr EXCEPT ![self] = "S"]
                                                                                                                                                                                                  /\ m' = [m EXCEPT ![self] = m[self]]
                                                                                                                                                                                                  /\ stack' = [stack EXCEPT ![self] = << [ procedure |->  "Deliver",
                                                                                                                                                                                                                                           pc        |->  "SK7",
                                                                                                                                                                                                                                           lg        |->  lg[self],
                                                                                                                                                                                                                                           sx        |->  sx[self],
                                                                                                                                                                                                                                           jx        |->  jx[self],
                                                                                                                                                                                                                                           ch        |->  ch[self],
                                                                                                                                                                                                                                           lv        |->  lv[self],
                                                                                                                                                                                                                                           snap      |->  snap[self],
                                                                                                                                                                                                                                           fr        |->  fr[self],
                                                                                                                                                                                                                                           to        |->  to[self],
                                                                                                                                                                                                                                           m         |->  m[self] ] >>
                                                                                                                                                                                                                                       \o stack[self]]
                                                                                                                                                                                                  /\ to' = [to EXCEPT ![self] = S(to[self]).sink]
                                                                                                                                                                                               /\ lg' = [lg EXCEPT ![self] = FALSE]
                                                                                                                                                                                               /\ sx' = [sx EXCEPT ![self] = 0]
                                                                                                                                                                                               /\ jx' = [jx EXCEPT ![self] = 0]
                                                                                                                                                                                               /\ ch' = [ch EXCEPT ![self] = ""]
                                                                                                                                                                                               /\ lv' = [lv EXCEPT ![self] = 0]
                                                                                                                                                                                               /\ snap' = [snap EXCEPT ![self] = <<>>]
                                                                                                                                                                                               /\ pc' = [pc EXCEPT ![self] = "DStart"]
                                                                                                                                                                                               /\ UNCHANGED << obs, 
                                                                                                                                                                                                               panicked >>
                                                                                                                                                                                    /\ st' = st
                                                                                                                                                         ELSE /\ IF m[self].t \in {"H", "D"} \/ S(to[self]).utb = NoRef
                                                                                                                                                                    THEN /\ obs' = LogO(obs \o [q \in 1..OpenCount(obs, 1, 0) |-> RetEv(ThOf(self))],
                                                                                                                                                                                        Ev("panic", ThOf(self), "", "", "", 0))
                                                                                                                                                                         /\ panicked' = TRUE
                                                                                                                                                                         /\ pc' = [pc EXCEPT ![self] = "Halt"]
                                                                                                                                                                         /\ UNCHANGED << stack, 
                                                                                                                                                                                         fr, 
                                                                                                                                                                                         to, 
                                                                                                                                                                                         m, 
                                                                                                                                                                                         lg, 
                                                                                                                                                                                         sx, 
                                                                                                                                                                                         jx, 
                                                                                                                                                                                         ch, 
                                                                                                                                                                                         lv, 
                                                                                                                                                                                         snap >>
                                                                                                                                                                    ELSE /\ /\ fr' = [fr EXCEPT ![self] = "S"]
                                                                                                                                                                            /\ m' = [m EXCEPT ![self] = m[self]]
                                                                                                                                                                            /\ stack' = [stack EXCEPT ![self] = << [ procedure |->  "Deliver",
                                                                                                                                                                                                                     pc        |->  "SK8",
                                                                                                                                                                                                                     lg        |->  lg[self],
                                                                                                                                                                                                                     sx        |->  sx[self],
                                                                                                                                                                                                                     jx        |->  jx[self],
                                                                                                                                                                                                                     ch        |->  ch[self],
                                                                                                                                                                                                                     lv        |->  lv[self],
                                                                                                                                                                                                                     snap      |->  snap[self],
                                                                                                                                                                                                                     fr        |->  fr[self],
                                                                                                                                                                                                                     to        |->  to[self],
                                                                                                                                                                                                                     m         |->  m[self] ] >>
                                                                                                                                                                                                                 \o stack[self]]
                                                                                                                                                                            /\ to' = [to EXCEPT ![self] = S(to[self]).utb]
                                                                                                                                                                         /\ lg' = [lg EXCEPT ![self] = FALSE]
                                                                                                                                                                         /\ sx' = [sx EXCEPT ![self] = 0]
                                                                                                                                                                         /\ jx' = [jx EXCEPT ![self] = 0]
                                                                                                                                                                         /\ ch' = [ch EXCEPT ![self] = ""]
                                                                                                                                                                         /\ lv' = [lv EXCEPT ![self] = 0]
                                                                                                                                                                         /\ snap' = [snap EXCEPT ![self] = <<>>]
                                                                                                                                                                         /\ pc' = [pc EXCEPT ![self] = "DStart"]
                                                                                                                                                                         /\ UNCHANGED << obs, 
                                                                                                                                                                                         panicked >>
                                                                                                                                                              /\ st' = st
                                                                                                                                        /\ UNCHANGED << nd, 
                                                                                                                                                        tasks, 
                                                                                                                                                        script >>
                                                                                                                                   ELSE /\ IF Kind(to[self].n) = "merge"
                                                                                                                                              THEN /\ IF to[self].r = "src"
                                                                                                                                                         THEN /\ IF m[self].t = "H"
                                                                                                                                                                    THEN /\ sx' = [sx EXCEPT ![self] = Len(st[to[self].n]) + 1]
                                                                                                                                                                         /\ st' = [st EXCEPT ![to[self].n] = Append(st[to[self].n], InitSt(to[self].n, m[self].tb))]
                                                                                                                                                                         /\ jx' = [jx EXCEPT ![self] = 1]
                                                                                                                                                                         /\ pc' = [pc EXCEPT ![self] = "MG1"]
                                                                                                                                                                    ELSE /\ pc' = [pc EXCEPT ![self] = "Ret"]
                                                                                                                                                                         /\ UNCHANGED << st, 
                                                                                                                                                                                         sx, 
                                                                                                                                                                                         jx >>
                                                                                                                                                              /\ UNCHANGED << obs, 
                                                                                                                                                                              panicked >>
                                                                                                                                                         ELSE /\ IF to[self].r = "up"
                                                                                                                                                                    THEN /\ IF m[self].t = "H"
                                                                                                                                                                               THEN /\ pc' = [pc EXCEPT ![self] = "mg_late_ld"]
                                                                                                                                                                                    /\ UNCHANGED << obs, 
                                                                                                                                                                                                    panicked >>
                                                                                                                                                                               ELSE /\ IF m[self].t = "D"
                                                                                                                                                                                          THEN /\ pc' = [pc EXCEPT ![self] = "mg_data"]
                                                                                                                                                                                               /\ UNCHANGED << obs, 
                                                                                                                                                                                                               panicked >>
                                                                                                                                                                                          ELSE /\ IF m[self].t = "P"
                                                                                                                                                                                                     THEN /\ obs' = LogO(obs \o [q \in 1..OpenCount(obs, 1, 0) |-> RetEv(ThOf(self))],
                                                                                                                                                                                                                         Ev("panic", ThOf(self), "", "", "", 0))
                                                                                                                                                                                                          /\ panicked' = TRUE
                                                                                                                                                                                                          /\ pc' = [pc EXCEPT ![self] = "Halt"]
                                                                                                                                                                                                     ELSE /\ IF m[self].t = "E"
                                                                                                                                                                                                                THEN /\ pc' = [pc EXCEPT ![self] = "mg_ended_st"]
                                                                                                                                                                                                                ELSE /\ pc' = [pc EXCEPT ![self] = "mg_tb_clr"]
                                                                                                                                                                                                          /\ UNCHANGED << obs, 
                                                                                                                                                                                                                          panicked >>
                                                                                                                                                                    ELSE /\ IF IsEnd(m[self])
                                                                                                                                                                               THEN /\ pc' = [pc EXCEPT ![self] = "mg_tk_ended_st"]
                                                                                                                                                                               ELSE /\ pc' = [pc EXCEPT ![self] = "MG8a"]
                                                                                                                                                                         /\ UNCHANGED << obs, 
                                                                                                                                                                                         panicked >>
                                                                                                                                                              /\ UNCHANGED << st, 
                                                                                                                                                                              sx, 
                                                                                                                                                                              jx >>
                                                                                                                                                   /\ UNCHANGED << nd, 
                                                                                                                                                                   tasks, 
                                                                                                                                                                   script, 
                                                                                                                                                                   stack, 
                                                                                                                                                                   fr, 
                                                                                                                                                                   to, 
                                                                                                                                                                   m, 
                                                                                                                                                                   lg, 
                                                                                                                                                                   ch, 
                                                                                                                                                                   lv, 
                                                                                                                                                                   snap >>
                                                                                                                                              ELSE /\ IF Kind(to[self].n) = "concat"
                                                                                                                                                         THEN /\ IF to[self].r = "src"
                                                                                                                                                                    THEN /\ IF m[self].t = "H"
                                                                                                                                                                               THEN /\ sx' = [sx EXCEPT ![self] = Len(st[to[self].n]) + 1]
                                                                                                                                                                                    /\ st' = [st EXCEPT ![to[self].n] = Append(st[to[self].n], InitSt(to[self].n, m[self].tb))]
                                                                                                                                                                                    /\ IF Len(Ups(to[self].n)) = 0
                                                                                                                                                                                          THEN /\ pc' = [pc EXCEPT ![self] = "CC0"]
                                                                                                                                                                                          ELSE /\ pc' = [pc EXCEPT ![self] = "CCNext"]
                                                                                                                                                                               ELSE /\ pc' = [pc EXCEPT ![self] = "Ret"]
                                                                                                                                                                                    /\ UNCHANGED << st, 
                                                                                                                                                                                                    sx >>
                                                                                                                                                                         /\ UNCHANGED << obs, 
                                                                                                                                                                                         panicked, 
                                                                                                                                                                                         stack, 
                                                                                                                                                                                         fr, 
                                                                                                                                                                                         to, 
                                                                                                                                                                                         m, 
                                                                                                                                                                                         lg, 
                                                                                                                                                                                         jx, 
                                                                                                                                                                                         ch, 
                                                                                                                                                                                         lv, 
                                                                                                                                                                                         snap >>
                                                                                                                                                                    ELSE /\ IF to[self].r = "ntb"
                                                                                                                                                                               THEN /\ IF m[self].t \in {"E", "T"}
                                                                                                                                                                                          THEN /\ st' = [st EXCEPT ![to[self].n][to[self].s].gotpull = TRUE]
                                                                                                                                                                                          ELSE /\ TRUE
                                                                                                                                                                                               /\ st' = st
                                                                                                                                                                                    /\ pc' = [pc EXCEPT ![self] = "Ret"]
                                                                                                                                                                                    /\ UNCHANGED << obs, 
                                                                                                                                                                                                    panicked, 
                                                                                                                                                                                                    stack, 
                                                                                                                                                                                                    fr, 
                                                                                                                                                                                                    to, 
                                                                                                                                                                                                    m, 
                                                                                                                                                                                                    lg, 
                                                                                                                                                                                                    sx, 
                                                                                                                                                                                                    jx, 
                                                                                                                                                                                                    ch, 
                                                                                                                                                                                                    lv, 
                                                                                                                                                                                                    snap >>
                                                                                                                                                                               ELSE /\ IF to[self].r = "up"
                                                                                                                                                                                          THEN /\ IF m[self].t = "H"
                                                                                                                                                                                                     THEN /\ st' = [st EXCEPT ![to[self].n][to[self].s].utb = m[self].tb]
                                                                                                                                                                                                          /\ pc' = [pc EXCEPT ![self] = "CC1"]
                                                                                                                                                                                                          /\ UNCHANGED << obs, 
                                                                                                                                                                                                                          panicked, 
                                                                                                                                                                                                                          stack, 
                                                                                                                                                                                                                          fr, 
                                                                                                                                                                                                                          to, 
                                                                                                                                                                                                                          m, 
                                                                                                                                                                                                                          lg, 
                                                                                                                                                                                                                          sx, 
                                                                                                                                                                                                                          jx, 
                                                                                                                                                                                                                          ch, 
                                                                                                                                                                                                                          lv, 
                                                                                                                                                                                                                          snap >>
                                                                                                                                                                                                     ELSE /\ IF m[self].t = "D"
                                                                                                                                                                                                                THEN /\ /\ fr' = [fr EXCEPT ![self] = "S"]
                                                                                                                                                                                                                        /\ m' = [m EXCEPT ![self] = m[self]]
                                                                                                                                                                                                                        /\ stack' = [stack EXCEPT ![self] = << [ procedure |->  "Deliver",
                                                                                                                                                                                                                                                                 pc        |->  "CC3",
                                                                                                                                                                                                                                                                 lg        |->  lg[self],
                                                                                                                                                                                                                                                                 sx        |->  sx[self],
                                                                                                                                                                                                                                                                 jx        |->  jx[self],
                                                                                                                                                                                                                                                                 ch        |->  ch[self],
                                                                                                                                                                                                                                                                 lv        |->  lv[self],
                                                                                                                                                                                                                                                                 snap      |->  snap[self],
                                                                                                                                                                                                                                                                 fr        |->  fr[self],
                                                                                                                                                                                                                                                                 to        |->  to[self],
                                                                                                                                                                                                                                                                 m         |->  m[self] ] >>
                                                                                                                                                                                                                                                             \o stack[self]]
                                                                                                                                                                                                                        /\ to' = [to EXCEPT ![self] = S(to[self]).sink]
                                                                                                                                                                                                                     /\ lg' = [lg EXCEPT ![self] = FALSE]
                                                                                                                                                                                                                     /\ sx' = [sx EXCEPT ![self] = 0]
                                                                                                                                                                                                                     /\ jx' = [jx EXCEPT ![self] = 0]
                                                                                                                                                                                                                     /\ ch' = [ch EXCEPT ![self] = ""]
                                                                                                                                                                                                                     /\ lv' = [lv EXCEPT ![self] = 0]
                                                                                                                                                                                                                     /\ snap' = [snap EXCEPT ![self] = <<>>]
                                                                                                                                                                                                                     /\ pc' = [pc EXCEPT ![self] = "DStart"]
                                                                                                                                                                                                                     /\ UNCHANGED << st, 
                                                                                                                                                                                                                                     obs, 
                                                                                                                                                                                                                                     panicked >>
                                                                                                                                                                                                                ELSE /\ IF m[self].t = "P"
                                                                                                                                                                                                                           THEN /\ obs' = LogO(obs \o [q \in 1..OpenCount(obs, 1, 0) |-> RetEv(ThOf(self))],
                                                                                                                                                                                                                                               Ev("panic", ThOf(self), "", "", "", 0))
                                                                                                                                                                                                                                /\ panicked' = TRUE
                                                                                                                                                                                                                                /\ pc' = [pc EXCEPT ![self] = "Halt"]
                                                                                                                                                                                                                                /\ UNCHANGED << st, 
                                                                                                                                                                                                                                                stack, 
                                                                                                                                                                                                                                                fr, 
                                                                                                                                                                                                                                                to, 
                                                                                                                                                                                                                                                m, 
                                                                                                                                                                                                                                                lg, 
                                                                                                                                                                                                                                                sx, 
                                                                                                                                                                                                                                                jx, 
                                                                                                                                                                                                                                                ch, 
                                                                                                                                                                                                                                                lv, 
                                                                                                                                                                                                                                                snap >>
                                                                                                                                                                                                                           ELSE /\ IF m[self].t = "E"
                                                                                                                                                                                                                                      THEN /\ /\ fr' = [fr EXCEPT ![self] = "S"]
                                                                                                                                                                                                                                              /\ m' = [m EXCEPT ![self] = m[self]]
                                                                                                                                                                                                                                              /\ stack' = [stack EXCEPT ![self] = << [ procedure |->  "Deliver",
                                                                                                                                                                                                                                                                                       pc        |->  "CC4",
                                                                                                                                                                                                                                                                                       lg        |->  lg[self],
                                                                                                                                                                                                                                                                                       sx        |->  sx[self],
                                                                                                                                                                                                                                                                                       jx        |->  jx[self],
                                                                                                                                                                                                                                                                                       ch        |->  ch[self],
                                                                                                                                                                                                                                                                                       lv        |->  lv[self],
                                                                                                                                                                                                                                                                                       snap      |->  snap[self],
                                                                                                                                                                                                                                                                                       fr        |->  fr[self],
                                                                                                                                                                                                                                                                                       to        |->  to[self],
                                                                                                                                                                                                                                                                                       m         |->  m[self] ] >>
                                                                                                                                                                                                                                                                                   \o stack[self]]
                                                                                                                                                                                                                                              /\ to' = [to EXCEPT ![self] = S(to[self]).sink]
                                                                                                                                                                                                                                           /\ lg' = [lg EXCEPT ![self] = FALSE]
                                                                                                                                                                                                                                           /\ sx' = [sx EXCEPT ![self] = 0]
                                                                                                                                                                                                                                           /\ jx' = [jx EXCEPT ![self] = 0]
                                                                                                                                                                                                                                           /\ ch' = [ch EXCEPT ![self] = ""]
                                                                                                                                                                                                                                           /\ lv' = [lv EXCEPT ![self] = 0]
                                                                                                                                                                                                                                           /\ snap' = [snap EXCEPT ![self] = <<>>]
                                                                                                                                                                                                                                           /\ pc' = [pc EXCEPT ![self] = "DStart"]
                                                                                                                                                                                                                                           /\ st' = st
                                                                                                                                                                                                                                      ELSE /\ st' = [st EXCEPT ![to[self].n][to[self].s].i = S(to[self]).i + 1]
                                                                                                                                                                                                                                           /\ sx' = [sx EXCEPT ![self] = to[self].s]
                                                                                                                                                                                                                                           /\ pc' = [pc EXCEPT ![self] = "CCNext"]
                                                                                                                                                                                                                                           /\ UNCHANGED << stack, 
                                                                                                                                                                                                                                                           fr, 
                                                                                                                                                                                                                                                           to, 
                                                                                                                                                                                                                                                           m, 
                                                                                                                                                                                                                                                           lg, 
                                                                                                                                                                                                                                                           jx, 
                                                                                                                                                                                                                                                           ch, 
                                                                                                                                                                                                                                                           lv, 
                                                                                                                                                                                                                                                           snap >>
                                                                                                                                                                                                                                /\ UNCHANGED << obs, 
                                                                                                                                                                                                                                                panicked >>
                                                                                                                                                                                          ELSE /\ IF m[self].t \in {"H", "D"}
                                                                                                                                                                                                     THEN /\ obs' = LogO(obs \o [q \in 1..OpenCount(obs, 1, 0) |-> RetEv(ThOf(self))],
                                                                                                                                                                                                                         Ev("panic", ThOf(self), "", "", "", 0))
                                                                                                                                                                                                          /\ panicked' = TRUE
                                                                                                                                                                                                          /\ pc' = [pc EXCEPT ![self] = "Halt"]
                                                                                                                                                                                                          /\ st' = st
                                                                                                                                                                                                     ELSE /\ IF m[self].t = "P"
                                                                                                                                                                                                                THEN /\ st' = [st EXCEPT ![to[self].n][to[self].s].gotpull = TRUE]
                                                                                                                                                                                                                ELSE /\ TRUE
                                                                                                                                                                                                                     /\ st' = st
                                                                                                                                                                                                          /\ pc' = [pc EXCEPT ![self] = "CC5"]
                                                                                                                                                                                                          /\ UNCHANGED << obs, 
                                                                                                                                                                                                                          panicked >>
                                                                                                                                                                                               /\ UNCHANGED << stack, 
                                                                                                                                                                                                               fr, 
                                                                                                                                                                                                               to, 
                                                                                                                                                                                                               m, 
                                                                                                                                                                                                               lg, 
                                                                                                                                                                                                               sx, 
                                                                                                                                                                                                               jx, 
                                                                                                                                                                                                               ch, 
                                                                                                                                                                                                               lv, 
                                                                                                                                                                                                               snap >>
                                                                                                                                                              /\ UNCHANGED << nd, 
                                                                                                                                                                              tasks, 
                                                                                                                                                                              script >>
                                                                                                                                                         ELSE /\ IF Kind(to[self].n) = "combine"
                                                                                                                                                                    THEN /\ IF to[self].r = "src"
                                                                                                                                                                               THEN /\ IF m[self].t = "H"
                                                                                                                                                                                          THEN /\ sx' = [sx EXCEPT ![self] = Len(st[to[self].n]) + 1]
                                                                                                                                                                                               /\ st' = [st EXCEPT ![to[self].n] = Append(st[to[self].n], InitSt(to[self].n, m[self].tb))]
                                                                                                                                                                                               /\ jx' = [jx EXCEPT ![self] = 1]
                                                                                                                                                                                               /\ pc' = [pc EXCEPT ![self] = "CB1"]
                                                                                                                                                                                          ELSE /\ pc' = [pc EXCEPT ![self] = "Ret"]
                                                                                                                                                                                               /\ UNCHANGED << st, 
                                                                                                                                                                                                               sx, 
                                                                                                                                                                                                               jx >>
                                                                                                                                                                                    /\ UNCHANGED << obs, 
                                                                                                                                                                                                    panicked >>
                                                                                                                                                                               ELSE /\ IF to[self].r = "up"
                                                                                                                                                                                          THEN /\ IF m[self].t = "H"
                                                                                                                                                                                                     THEN /\ pc' = [pc EXCEPT ![self] = "cb_tb_st"]
                                                                                                                                                                                                          /\ UNCHANGED << obs, 
                                                                                                                                                                                                                          panicked >>
                                                                                                                                                                                                     ELSE /\ IF m[self].t = "D"
                                                                                                                                                                                                                THEN /\ pc' = [pc EXCEPT ![self] = "cb_vals_ld"]
                                                                                                                                                                                                                     /\ UNCHANGED << obs, 
                                                                                                                                                                                                                                     panicked >>
                                                                                                                                                                                                                ELSE /\ IF m[self].t = "P"
                                                                                                                                                                                                                           THEN /\ obs' = LogO(obs \o [q \in 1..OpenCount(obs, 1, 0) |-> RetEv(ThOf(self))],
                                                                                                                                                                                                                                               Ev("panic", ThOf(self), "", "", "", 0))
                                                                                                                                                                                                                                /\ panicked' = TRUE
                                                                                                                                                                                                                                /\ pc' = [pc EXCEPT ![self] = "Halt"]
                                                                                                                                                                                                                           ELSE /\ pc' = [pc EXCEPT ![self] = "cb_end_fs"]
                                                                                                                                                                                                                                /\ UNCHANGED << obs, 
                                                                                                                                                                                                                                                panicked >>
                                                                                                                                                                                               /\ jx' = jx
                                                                                                                                                                                          ELSE /\ IF m[self].t \in {"H", "D"}
                                                                                                                                                                                                     THEN /\ obs' = LogO(obs \o [q \in 1..OpenCount(obs, 1, 0) |-> RetEv(ThOf(self))],
                                                                                                                                                                                                                         Ev("panic", ThOf(self), "", "", "", 0))
                                                                                                                                                                                                          /\ panicked' = TRUE
                                                                                                                                                                                                          /\ pc' = [pc EXCEPT ![self] = "Halt"]
                                                                                                                                                                                                          /\ jx' = jx
                                                                                                                                                                                                     ELSE /\ jx' = [jx EXCEPT ![self] = 1]
                                                                                                                                                                                                          /\ pc' = [pc EXCEPT ![self] = "CB6"]
                                                                                                                                                                                                          /\ UNCHANGED << obs, 
                                                                                                                                                                                                                          panicked >>
                                                                                                                                                                                    /\ UNCHANGED << st, 
                                                                                                                                                                                                    sx >>
                                                                                                                                                                         /\ UNCHANGED << nd, 
                                                                                                                                                                                         tasks, 
                                                                                                                                                                                         script, 
                                                                                                                                                                                         stack, 
                                                                                                                                                                                         fr, 
                                                                                                                                                                                         to, 
                                                                                                                                                                                         m, 
                                                                                                                                                                                         lg, 
                                                                                                                                                                                         ch, 
                                                                                                                                                                                         lv, 
                                                                                                                                                                                         snap >>
                                                                                                                                                                    ELSE /\ IF Kind(to[self].n) \in {"flatten", "flatmap"}
                                                                                                                                                                               THEN /\ IF to[self].r = "src"
                                                                                                                                                                                          THEN /\ IF m[self].t = "H"
                                                                                                                                                                                                     THEN /\ sx' = [sx EXCEPT ![self] = Len(st[to[self].n]) + 1]
                                                                                                                                                                                                          /\ st' = [st EXCEPT ![to[self].n] = Append(st[to[self].n], InitSt(to[self].n, m[self].tb))]
                                                                                                                                                                                                          /\ pc' = [pc EXCEPT ![self] = "FL1"]
                                                                                                                                                                                                     ELSE /\ pc' = [pc EXCEPT ![self] = "Ret"]
                                                                                                                                                                                                          /\ UNCHANGED << st, 
                                                                                                                                                                                                                          sx >>
                                                                                                                                                                                               /\ UNCHANGED << obs, 
                                                                                                                                                                                                               panicked, 
                                                                                                                                                                                                               stack, 
                                                                                                                                                                                                               fr, 
                                                                                                                                                                                                               to, 
                                                                                                                                                                                                               m, 
                                                                                                                                                                                                               lg, 
                                                                                                                                                                                                               jx, 
                                                                                                                                                                                                               ch, 
                                                                                                                                                                                                               lv, 
                                                                                                                                                                                                               snap >>
                                                                                                                                                                                          ELSE /\ IF to[self].r = "up"
                                                                                                                                                                                                     THEN /\ IF m[self].t = "H"
                                                                                                                                                                                                                THEN /\ st' = [st EXCEPT ![to[self].n][to[self].s].otb = m[self].tb]
                                                                                                                                                                                                                     /\ pc' = [pc EXCEPT ![self] = "FL3"]
                                                                                                                                                                                                                     /\ UNCHANGED << obs, 
                                                                                                                                                                                                                                     panicked, 
                                                                                                                                                                                                                                     stack, 
                                                                                                                                                                                                                                     fr, 
                                                                                                                                                                                                                                     to, 
                                                                                                                                                                                                                                     m, 
                                                                                                                                                                                                                                     lg, 
                                                                                                                                                                                                                                     sx, 
                                                                                                                                                                                                                                     jx, 
                                                                                                                                                                                                                                     ch, 
                                                                                                                                                                                                                                     lv, 
                                                                                                                                                                                                                                     snap >>
                                                                                                                                                                                                                ELSE /\ IF m[self].t = "D"
                                                                                                                                                                                                                           THEN /\ IF Kind(to[self].n) = "flatmap"
                                                                                                                                                                                                                                      THEN /\ obs' = LogO(obs, Ev("fn", ThOf(self), "", FnName(to[self].n), "", m[self].v))
                                                                                                                                                                                                                                      ELSE /\ TRUE
                                                                                                                                                                                                                                           /\ obs' = obs
                                                                                                                                                                                                                                /\ pc' = [pc EXCEPT ![self] = "FL5a"]
                                                                                                                                                                                                                                /\ UNCHANGED << st, 
                                                                                                                                                                                                                                                panicked, 
                                                                                                                                                                                                                                                stack, 
                                                                                                                                                                                                                                                fr, 
                                                                                                                                                                                                                                                to, 
                                                                                                                                                                                                                                                m, 
                                                                                                                                                                                                                                                lg, 
                                                                                                                                                                                                                                                sx, 
                                                                                                                                                                                                                                                jx, 
                                                                                                                                                                                                                                                ch, 
                                                                                                                                                                                                                                                lv, 
                                                                                                                                                                                                                                                snap >>
                                                                                                                                                                                                                           ELSE /\ IF m[self].t = "P"
                                                                                                                                                                                                                                      THEN /\ obs' = LogO(obs \o [q \in 1..OpenCount(obs, 1, 0) |-> RetEv(ThOf(self))],
                                                                                                                                                                                                                                                          Ev("panic", ThOf(self), "", "", "", 0))
                                                                                                                                                                                                                                           /\ panicked' = TRUE
                                                                                                                                                                                                                                           /\ pc' = [pc EXCEPT ![self] = "Halt"]
                                                                                                                                                                                                                                           /\ UNCHANGED << st, 
                                                                                                                                                                                                                                                           stack, 
                                                                                                                                                                                                                                                           fr, 
                                                                                                                                                                                                                                                           to, 
                                                                                                                                                                                                                                                           m, 
                                                                                                                                                                                                                                                           lg, 
                                                                                                                                                                                                                                                           sx, 
                                                                                                                                                                                                                                                           jx, 
                                                                                                                                                                                                                                                           ch, 
                                                                                                                                                                                                                                                           lv, 
                                                                                                                                                                                                                                                           snap >>
                                                                                                                                                                                                                                      ELSE /\ IF m[self].t = "E"
                                                                                                                                                                                                                                                 THEN /\ IF S(to[self]).itb # NoRef
                                                                                                                                                                                                                                                            THEN /\ /\ fr' = [fr EXCEPT ![self] = "S"]
                                                                                                                                                                                                                                                                    /\ m' = [m EXCEPT ![self] = Msg("T")]
                                                                                                                                                                                                                                                                    /\ stack' = [stack EXCEPT ![self] = << [ procedure |->  "Deliver",
                                                                                                                                                                                                                                                                                                             pc        |->  "FL7",
                                                                                                                                                                                                                                                                                                             lg        |->  lg[self],
                                                                                                                                                                                                                                                                                                             sx        |->  sx[self],
                                                                                                                                                                                                                                                                                                             jx        |->  jx[self],
                                                                                                                                                                                                                                                                                                             ch        |->  ch[self],
                                                                                                                                                                                                                                                                                                             lv        |->  lv[self],
                                                                                                                                                                                                                                                                                                             snap      |->  snap[self],
                                                                                                                                                                                                                                                                                                             fr        |->  fr[self],
                                                                                                                                                                                                                                                                                                             to        |->  to[self],
                                                                                                                                                                                                                                                                                                             m         |->  m[self] ] >>
                                                                                                                                                                                                                                                                                                         \o stack[self]]
                                                                                                                                                                                                                                                                    /\ to' = [to EXCEPT ![self] = S(to[self]).itb]
                                                                                                                                                                                                                                                                 /\ lg' = [lg EXCEPT ![self] = FALSE]
                                                                                                                                                                                                                                                                 /\ sx' = [sx EXCEPT ![self] = 0]
                                                                                                                                                                                                                                                                 /\ jx' = [jx EXCEPT ![self] = 0]
                                                                                                                                                                                                                                                                 /\ ch' = [ch EXCEPT ![self] = ""]
                                                                                                                                                                                                                                                                 /\ lv' = [lv EXCEPT ![self] = 0]
                                                                                                                                                                                                                                                                 /\ snap' = [snap EXCEPT ![self] = <<>>]
                                                                                                                                                                                                                                                                 /\ pc' = [pc EXCEPT ![self] = "DStart"]
                                                                                                                                                                                                                                                            ELSE /\ pc' = [pc EXCEPT ![self] = "FL7"]
                                                                                                                                                                                                                                                                 /\ UNCHANGED << stack, 
                                                                                                                                                                                                                                                                                 fr, 
                                                                                                                                                                                                                                                                                 to, 
                                                                                                                                                                                                                                                                                 m, 
                                                                                                                                                                                                                                                                                 lg, 
                                                                                                                                                                                                                                                                                 sx, 
                                                                                                                                                                                                                                                                                 jx, 
                                                                                                                                                                                                                                                                                 ch, 
                                                                                                                                                                                                                                                                                 lv, 
                                                                                                                                                                                                                                                                                 snap >>
                                                                                                                                                                                                                                                      /\ st' = st
                                                                                                                                                                                                                                                 ELSE /\ IF S(to[self]).itb = NoRef
                                                                                                                                                                                                                                                            THEN /\ /\ fr' = [fr EXCEPT ![self] = "S"]
                                                                                                                                                                                                                                                                    /\ m' = [m EXCEPT ![self] = Msg("T")]
                                                                                                                                                                                                                                                                    /\ stack' = [stack EXCEPT ![self] = << [ procedure |->  "Deliver",
                                                                                                                                                                                                                                                                                                             pc        |->  "FL9",
                                                                                                                                                                                                                                                                                                             lg        |->  lg[self],
                                                                                                                                                                                                                                                                                                             sx        |->  sx[self],
                                                                                                                                                                                                                                                                                                             jx        |->  jx[self],
                                                                                                                                                                                                                                                                                                             ch        |->  ch[self],
                                                                                                                                                                                                                                                                                                             lv        |->  lv[self],
                                                                                                                                                                                                                                                                                                             snap      |->  snap[self],
                                                                                                                                                                                                                                                                                                             fr        |->  fr[self],
                                                                                                                                                                                                                                                                                                             to        |->  to[self],
                                                                                                                                                                                                                                                                                                             m         |->  m[self] ] >>
                                                                                                                                                                                                                                                                                                         \o stack[self]]
                                                                                                                                                                                                                                                                    /\ to' = [to EXCEPT ![self] = S(to[self]).sink]
                                                                                                                                                                                                                                                                 /\ lg' = [lg EXCEPT ![self] = FALSE]
                                                                                                                                                                                                                                                                 /\ sx' = [sx EXCEPT ![self] = 0]
                                                                                                                                                                                                                                                                 /\ jx' = [jx EXCEPT ![self] = 0]
                                                                                                                                                                                                                                                                 /\ ch' = [ch EXCEPT ![self] = ""]
                                                                                                                                                                                                                                                                 /\ lv' = [lv EXCEPT ![self] = 0]
                                                                                                                                                                                                                                                                 /\ snap' = [snap EXCEPT ![self] = <<>>]
                                                                                                                                                                                                                                                                 /\ pc' = [pc EXCEPT ![self] = "DStart"]
                                                                                                                                                                                                                                                                 /\ st' = st
                                                                                                                                                                                                                                                            ELSE /\ st' = [st EXCEPT ![to[self].n][to[self].s].otb = NoRef]
                                                                                                                                                                                                                                                                 /\ pc' = [pc EXCEPT ![self] = "FL9"]
                                                                                                                                                                                                                                                                 /\ UNCHANGED << stack, 
                                                                                                                                                                                                                                                                                 fr, 
                                                                                                                                                                                                                                                                                 to, 
                                                                                                                                                                                                                                                                                 m, 
                                                                                                                                                                                                                                                                                 lg, 
                                                                                                                                                                                                                                                                                 sx, 
                                                                                                                                                                                                                                                                                 jx, 
                                                                                                                                                                                                                                                                                 ch, 
                                                                                                                                                                                                                                                                                 lv, 
                                                                                                                                                                                                                                                                                 snap >>
                                                                                                                                                                                                                                           /\ UNCHANGED << obs, 
                                                                                                                                                                                                                                                           panicked >>
                                                                                                                                                                                                     ELSE /\ IF to[self].r = "in"
                                                                                                                                                                                                                THEN /\ IF m[self].t = "H"
                                                                                                                                                                                                                           THEN /\ st' = [st EXCEPT ![to[self].n][to[self].s].itb = m[self].tb]
                                                                                                                                                                                                                                /\ pc' = [pc EXCEPT ![self] = "FL10"]
                                                                                                                                                                                                                                /\ UNCHANGED << obs, 
                                                                                                                                                                                                                                                panicked, 
                                                                                                                                                                                                                                                stack, 
                                                                                                                                                                                                                                                fr, 
                                                                                                                                                                                                                                                to, 
                                                                                                                                                                                                                                                m, 
                                                                                                                                                                                                                                                lg, 
                                                                                                                                                                                                                                                sx, 
                                                                                                                                                                                                                                                jx, 
                                                                                                                                                                                                                                                ch, 
                                                                                                                                                                                                                                                lv, 
                                                                                                                                                                                                                                                snap >>
                                                                                                                                                                                                                           ELSE /\ IF m[self].t = "D"
                                                                                                                                                                                                                                      THEN /\ /\ fr' = [fr EXCEPT ![self] = "S"]
                                                                                                                                                                                                                                              /\ m' = [m EXCEPT ![self] = m[self]]
                                                                                                                                                                                                                                              /\ stack' = [stack EXCEPT ![self] = << [ procedure |->  "Deliver",
                                                                                                                                                                                                                                                                                       pc        |->  "FL12",
                                                                                                                                                                                                                                                                                       lg        |->  lg[self],
                                                                                                                                                                                                                                                                                       sx        |->  sx[self],
                                                                                                                                                                                                                                                                                       jx        |->  jx[self],
                                                                                                                                                                                                                                                                                       ch        |->  ch[self],
                                                                                                                                                                                                                                                                                       lv        |->  lv[self],
                                                                                                                                                                                                                                                                                       snap      |->  snap[self],
                                                                                                                                                                                                                                                                                       fr        |->  fr[self],
                                                                                                                                                                                                                                                                                       to        |->  to[self],
                                                                                                                                                                                                                                                                                       m         |->  m[self] ] >>
                                                                                                                                                                                                                                                                                   \o stack[self]]
                                                                                                                                                                                                                                              /\ to' = [to EXCEPT ![self] = S(to[self]).sink]
                                                                                                                                                                                                                                           /\ lg' = [lg EXCEPT ![self] = FALSE]
                                                                                                                                                                                                                                           /\ sx' = [sx EXCEPT ![self] = 0]
                                                                                                                                                                                                                                           /\ jx' = [jx EXCEPT ![self] = 0]
                                                                                                                                                                                                                                           /\ ch' = [ch EXCEPT ![self] = ""]
                                                                                                                                                                                                                                           /\ lv' = [lv EXCEPT ![self] = 0]
                                                                                                                                                                                                                                           /\ snap' = [snap EXCEPT ![self] = <<>>]
                                                                                                                                                                                                                                           /\ pc' = [pc EXCEPT ![self] = "DStart"]
                                                                                                                                                                                                                                           /\ UNCHANGED << st, 
                                                                                                                                                                                                                                                           obs, 
                                                                                                                                                                                                                                                           panicked >>
                                                                                                                                                                                                                                      ELSE /\ IF m[self].t = "P"
                                                                                                                                                                                                                                                 THEN /\ obs' = LogO(obs \o [q \in 1..OpenCount(obs, 1, 0) |-> RetEv(ThOf(self))],
                                                                                                                                                                                                                                                                     Ev("panic", ThOf(self), "", "", "", 0))
                                                                                                                                                                                                                                                      /\ panicked' = TRUE
                                                                                                                                                                                                                                                      /\ pc' = [pc EXCEPT ![self] = "Halt"]
                                                                                                                                                                                                                                                      /\ UNCHANGED << st, 
                                                                                                                                                                                                                                                                      stack, 
                                                                                                                                                                                                                                                                      fr, 
                                                                                                                                                                                                                                                                      to, 
                                                                                                                                                                                                                                                                      m, 
                                                                                                                                                                                                                                                                      lg, 
                                                                                                                                                                                                                                                                      sx, 
                                                                                                                                                                                                                                                                      jx, 
                                                                                                                                                                                                                                                                      ch, 
                                                                                                                                                                                                                                                                      lv, 
                                                                                                                                                                                                                                                                      snap >>
                                                                                                                                                                                                                                                 ELSE /\ IF m[self].t = "E"
                                                                                                                                                                                                                                                            THEN /\ IF S(to[self]).otb # NoRef
                                                                                                                                                                                                                                                                       THEN /\ /\ fr' = [fr EXCEPT ![self] = "S"]
                                                                                                                                                                                                                                                                               /\ m' = [m EXCEPT ![self] = Msg("T")]
                                                                                                                                                                                                                                                                               /\ stack' = [stack EXCEPT ![self] = << [ procedure |->  "Deliver",
                                                                                                                                                                                                                                                                                                                        pc        |->  "FL13",
                                                                                                                                                                                                                                                                                                                        lg        |->  lg[self],
                                                                                                                                                                                                                                                                                                                        sx        |->  sx[self],
                                                                                                                                                                                                                                                                                                                        jx        |->  jx[self],
                                                                                                                                                                                                                                                                                                                        ch        |->  ch[self],
                                                                                                                                                                                                                                                                                                                        lv        |->  lv[self],
                                                                                                                                                                                                                                                                                                                        snap      |->  snap[self],
                                                                                                                                                                                                                                                                                                                        fr        |->  fr[self],
                                                                                                                                                                                                                                                                                                                        to        |->  to[self],
                                                                                                                                                                                                                                                                                                                        m         |->  m[self] ] >>
                                                                                                                                                                                                                                                                                                                    \o stack[self]]
                                                                                                                                                                                                                                                                               /\ to' = [to EXCEPT ![self] = S(to[self]).otb]
                                                                                                                                                                                                                                                                            /\ lg' = [lg EXCEPT ![self] = FALSE]
                                                                                                                                                                                                                                                                            /\ sx' = [sx EXCEPT ![self] = 0]
                                                                                                                                                                                                                                                                            /\ jx' = [jx EXCEPT ![self] = 0]
                                                                                                                                                                                                                                                                            /\ ch' = [ch EXCEPT ![self] = ""]
                                                                                                                                                                                                                                                                            /\ lv' = [lv EXCEPT ![self] = 0]
                                                                                                                                                                                                                                                                            /\ snap' = [snap EXCEPT ![self] = <<>>]
                                                                                                                                                                                                                                                                            /\ pc' = [pc EXCEPT ![self] = "DStart"]
                                                                                                                                                                                                                                                                       ELSE /\ pc' = [pc EXCEPT ![self] = "FL13"]
                                                                                                                                                                                                                                                                            /\ UNCHANGED << stack, 
                                                                                                                                                                                                                                                                                            fr, 
                                                                                                                                                                                                                                                                                            to, 
                                                                                                                                                                                                                                                                                            m, 
                                                                                                                                                                                                                                                                                            lg, 
                                                                                                                                                                                                                                                                                            sx, 
                                                                                                                                                                                                                                                                                            jx, 
                                                                                                                                                                                                                                                                                            ch, 
                                                                                                                                                                                                                                                                                            lv, 
                                                                                                                                                                                                                                                                                            snap >>
                                                                                                                                                                                                                                                                 /\ st' = st
                                                                                                                                                                                                                                                            ELSE /\ IF S(to[self]).otb = NoRef
                                                                                                                                                                                                                                                                       THEN /\ /\ fr' = [fr EXCEPT ![self] = "S"]
                                                                                                                                                                                                                                                                               /\ m' = [m EXCEPT ![self] = Msg("T")]
                                                                                                                                                                                                                                                                               /\ stack' = [stack EXCEPT ![self] = << [ procedure |->  "Deliver",
                                                                                                                                                                                                                                                                                                                        pc        |->  "FL16",
                                                                                                                                                                                                                                                                                                                        lg        |->  lg[self],
                                                                                                                                                                                                                                                                                                                        sx        |->  sx[self],
                                                                                                                                                                                                                                                                                                                        jx        |->  jx[self],
                                                                                                                                                                                                                                                                                                                        ch        |->  ch[self],
                                                                                                                                                                                                                                                                                                                        lv        |->  lv[self],
                                                                                                                                                                                                                                                                                                                        snap      |->  snap[self],
                                                                                                                                                                                                                                                                                                                        fr        |->  fr[self],
                                                                                                                                                                                                                                                                                                                        to        |->  to[self],
                                                                                                                                                                                                                                                                                                                        m         |->  m[self] ] >>
                                                                                                                                                                                                                                                                                                                    \o stack[self]]
                                                                                                                                                                                                                                                                               /\ to' = [to EXCEPT ![self] = S(to[self]).sink]
                                                                                                                                                                                                                                                                            /\ lg' = [lg EXCEPT ![self] = FALSE]
                                                                                                                                                                                                                                                                            /\ sx' = [sx EXCEPT ![self] = 0]
                                                                                                                                                                                                                                                                            /\ jx' = [jx EXCEPT ![self] = 0]
                                                                                                                                                                                                                                                                            /\ ch' = [ch EXCEPT ![self] = ""]
                                                                                                                                                                                                                                                                            /\ lv' = [lv EXCEPT ![self] = 0]
                                                                                                                                                                                                                                                                            /\ snap' = [snap EXCEPT ![self] = <<>>]
                                                                                                                                                                                                                                                                            /\ pc' = [pc EXCEPT ![self] = "DStart"]
                                                                                                                                                                                                                                                                            /\ st' = st
                                                                                                                                                                                                                                                                       ELSE /\ st' = [st EXCEPT ![to[self].n][to[self].s].itb = NoRef]
                                                                                                                                                                                                                                                                            /\ pc' = [pc EXCEPT ![self] = "FL15"]
                                                                                                                                                                                                                                                                            /\ UNCHANGED << stack, 
                                                                                                                                                                                                                                                                                            fr, 
                                                                                                                                                                                                                                                                                            to, 
                                                                                                                                                                                                                                                                                            m, 
                                                                                                                                                                                                                                                                                            lg, 
                                                                                                                                                                                                                                                                                            sx, 
                                                                                                                                                                                                                                                                                            jx, 
                                                                                                                                                                                                                                                                                            ch, 
                                                                                                                                                                                                                                                                                            lv, 
                                                                                                                                                                                                                                                                                            snap >>
                                                                                                                                                                                                                                                      /\ UNCHANGED << obs, 
                                                                                                                                                                                                                                                                      panicked >>
                                                                                                                                                                                                                ELSE /\ IF m[self].t \in {"H", "D"}
                                                                                                                                                                                                                           THEN /\ obs' = LogO(obs \o [q \in 1..OpenCount(obs, 1, 0) |-> RetEv(ThOf(self))],
                                                                                                                                                                                                                                               Ev("panic", ThOf(self), "", "", "", 0))
                                                                                                                                                                                                                                /\ panicked' = TRUE
                                                                                                                                                                                                                                /\ pc' = [pc EXCEPT ![self] = "Halt"]
                                                                                                                                                                                                                                /\ UNCHANGED << stack, 
                                                                                                                                                                                                                                                fr, 
                                                                                                                                                                                                                                                to, 
                                                                                                                                                                                                                                                m, 
                                                                                                                                                                                                                                                lg, 
                                                                                                                                                                                                                                                sx, 
                                                                                                                                                                                                                                                jx, 
                                                                                                                                                                                                                                                ch, 
                                                                                                                                                                                                                                                lv, 
                                                                                                                                                                                                                                                snap >>
                                                                                                                                                                                                                           ELSE /\ IF m[self].t = "P"
                                                                                                                                                                                                                                      THEN /\ IF S(to[self]).itb # NoRef
                                                                                                                                                                                                                                                 THEN /\ /\ fr' = [fr EXCEPT ![self] = "S"]
                                                                                                                                                                                                                                                         /\ m' = [m EXCEPT ![self] = m[self]]
                                                                                                                                                                                                                                                         /\ stack' = [stack EXCEPT ![self] = << [ procedure |->  "Deliver",
                                                                                                                                                                                                                                                                                                  pc        |->  "FL17",
                                                                                                                                                                                                                                                                                                  lg        |->  lg[self],
                                                                                                                                                                                                                                                                                                  sx        |->  sx[self],
                                                                                                                                                                                                                                                                                                  jx        |->  jx[self],
                                                                                                                                                                                                                                                                                                  ch        |->  ch[self],
                                                                                                                                                                                                                                                                                                  lv        |->  lv[self],
                                                                                                                                                                                                                                                                                                  snap      |->  snap[self],
                                                                                                                                                                                                                                                                                                  fr        |->  fr[self],
                                                                                                                                                                                                                                                                                                  to        |->  to[self],
                                                                                                                                                                                                                                                                                                  m         |->  m[self] ] >>
                                                                                                                                                                                                                                                                                              \o stack[self]]
                                                                                                                                                                                                                                                         /\ to' = [to EXCEPT ![self] = S(to[self]).itb]
                                                                                                                                                                                                                                                      /\ lg' = [lg EXCEPT ![self] = FALSE]
                                                                                                                                                                                                                                                      /\ sx' = [sx EXCEPT ![self] = 0]
                                                                                                                                                                                                                                                      /\ jx' = [jx EXCEPT ![self] = 0]
                                                                                                                                                                                                                                                      /\ ch' = [ch EXCEPT ![self] = ""]
                                                                                                                                                                                                                                                      /\ lv' = [lv EXCEPT ![self] = 0]
                                                                                                                                                                                                                                                      /\ snap' = [snap EXCEPT ![self] = <<>>]
                                                                                                                                                                                                                                                      /\ pc' = [pc EXCEPT ![self] = "DStart"]
                                                                                                                                                                                                                                                 ELSE /\ IF S(to[self]).otb # NoRef
                                                                                                                                                                                                                                                            THEN /\ /\ fr' = [fr EXCEPT ![self] = "S"]
                                                                                                                                                                                                                                                                    /\ m' = [m EXCEPT ![self] = m[self]]
                                                                                                                                                                                                                                                                    /\ stack' = [stack EXCEPT ![self] = << [ procedure |->  "Deliver",
                                                                                                                                                                                                                                                                                                             pc        |->  "FL17",
                                                                                                                                                                                                                                                                                                             lg        |->  lg[self],
                                                                                                                                                                                                                                                                                                             sx        |->  sx[self],
                                                                                                                                                                                                                                                                                                             jx        |->  jx[self],
                                                                                                                                                                                                                                                                                                             ch        |->  ch[self],
                                                                                                                                                                                                                                                                                                             lv        |->  lv[self],
                                                                                                                                                                                                                                                                                                             snap      |->  snap[self],
                                                                                                                                                                                                                                                                                                             fr        |->  fr[self],
                                                                                                                                                                                                                                                                                                             to        |->  to[self],
                                                                                                                                                                                                                                                                                                             m         |->  m[self] ] >>
                                                                                                                                                                                                                                                                                                         \o stack[self]]
                                                                                                                                                                                                                                                                    /\ to' = [to EXCEPT ![self] = S(to[self]).otb]
                                                                                                                                                                                                                                                                 /\ lg' = [lg EXCEPT ![self] = FALSE]
                                                                                                                                                                                                                                                                 /\ sx' = [sx EXCEPT ![self] = 0]
                                                                                                                                                                                                                                                                 /\ jx' = [jx EXCEPT ![self] = 0]
                                                                                                                                                                                                                                                                 /\ ch' = [ch EXCEPT ![self] = ""]
                                                                                                                                                                                                                                                                 /\ lv' = [lv EXCEPT ![self] = 0]
                                                                                                                                                                                                                                                                 /\ snap' = [snap EXCEPT ![self] = <<>>]
                                                                                                                                                                                                                                                                 /\ pc' = [pc EXCEPT ![self] = "DStart"]
                                                                                                                                                                                                                                                            ELSE /\ pc' = [pc EXCEPT ![self] = "FL17"]
                                                                                                                                                                                                                                                                 /\ UNCHANGED << stack, 
                                                                                                                                                                                                                                                                                 fr, 
                                                                                                                                                                                                                                                                                 to, 
                                                                                                                                                                                                                                                                                 m, 
                                                                                                                                                                                                                                                                                 lg, 
                                                                                                                                                                                                                                                                                 sx, 
                                                                                                                                                                                                                                                                                 jx, 
                                                                                                                                                                                                                                                                                 ch, 
                                                                                                                                                                                                                                                                                 lv, 
                                                                                                                                                                                                                                                                                 snap >>
                                                                                                                                                                                                                                      ELSE /\ IF S(to[self]).itb # NoRef
                                                                                                                                                                                                                                                 THEN /\ /\ fr' = [fr EXCEPT ![self] = "S"]
                                                                                                                                                                                                                                                         /\ m' = [m EXCEPT ![self] = Msg("T")]
                                                                                                                                                                                                                                                         /\ stack' = [stack EXCEPT ![self] = << [ procedure |->  "Deliver",
                                                                                                                                                                                                                                                                                                  pc        |->  "FL18",
                                                                                                                                                                                                                                                                                                  lg        |->  lg[self],
                                                                                                                                                                                                                                                                                                  sx        |->  sx[self],
                                                                                                                                                                                                                                                                                                  jx        |->  jx[self],
                                                                                                                                                                                                                                                                                                  ch        |->  ch[self],
                                                                                                                                                                                                                                                                                                  lv        |->  lv[self],
                                                                                                                                                                                                                                                                                                  snap      |->  snap[self],
                                                                                                                                                                                                                                                                                                  fr        |->  fr[self],
                                                                                                                                                                                                                                                                                                  to        |->  to[self],
                                                                                                                                                                                                                                                                                                  m         |->  m[self] ] >>
                                                                                                                                                                                                                                                                                              \o stack[self]]
                                                                                                                                                                                                                                                         /\ to' = [to EXCEPT ![self] = S(to[self]).itb]
                                                                                                                                                                                                                                                      /\ lg' = [lg EXCEPT ![self] = FALSE]
                                                                                                                                                                                                                                                      /\ sx' = [sx EXCEPT ![self] = 0]
                                                                                                                                                                                                                                                      /\ jx' = [jx EXCEPT ![self] = 0]
                                                                                                                                                                                                                                                      /\ ch' = [ch EXCEPT ![self] = ""]
                                                                                                                                                                                                                                                      /\ lv' = [lv EXCEPT ![self] = 0]
                                                                                                                                                                                                                                                      /\ snap' = [snap EXCEPT ![self] = <<>>]
                                                                                                                                                                                                                                                      /\ pc' = [pc EXCEPT ![self] = "DStart"]
                                                                                                                                                                                                                                                 ELSE /\ pc' = [pc EXCEPT ![self] = "FL18"]
                                                                                                                                                                                                                                                      /\ UNCHANGED << stack, 
                                                                                                                                                                                                                                                                      fr, 
                                                                                                                                                                                                                                                                      to, 
                                                                                                                                                                                                                                                                      m, 
                                                                                                                                                                                                                                                                      lg, 
                                                                                                                                                                                                                                                                      sx, 
                                                                                                                                                                                                                                                                      jx, 
                                                                                                                                                                                                                                                                      ch, 
                                                                                                                                                                                                                                                                      lv, 
                                                                                                                                                                                                                                                                      snap >>
                                                                                                                                                                                                                                /\ UNCHANGED << obs, 
                                                                                                                                                                                                                                                panicked >>
                                                                                                                                                                                                                     /\ st' = st
                                                                                                                                                                                    /\ UNCHANGED << nd, 
                                                                                                                                                                                                    tasks, 
                                                                                                                                                                                                    script >>
                                                                                                                                                                               ELSE /\ IF Kind(to[self].n) = "share"
                                                                                                                                                                                          THEN /\ IF to[self].r = "src"
                                                                                                                                                                                                     THEN /\ IF m[self].t = "H"
                                                                                                                                                                                                                THEN /\ sx' = [sx EXCEPT ![self] = Len(st[to[self].n]) + 1]
                                                                                                                                                                                                                     /\ st' = [st EXCEPT ![to[self].n] = Append(st[to[self].n], InitSt(to[self].n, m[self].tb))]
                                                                                                                                                                                                                     /\ nd' = [nd EXCEPT ![to[self].n].sinks = Append(nd[to[self].n].sinks, m[self].tb)]
                                                                                                                                                                                                                     /\ pc' = [pc EXCEPT ![self] = "SH1"]
                                                                                                                                                                                                                ELSE /\ pc' = [pc EXCEPT ![self] = "Ret"]
                                                                                                                                                                                                                     /\ UNCHANGED << st, 
                                                                                                                                                                                                                                     nd, 
                                                                                                                                                                                                                                     sx >>
                                                                                                                                                                                                          /\ UNCHANGED << obs, 
                                                                                                                                                                                                                          panicked, 
                                                                                                                                                                                                                          stack, 
                                                                                                                                                                                                                          fr, 
                                                                                                                                                                                                                          to, 
                                                                                                                                                                                                                          m, 
                                                                                                                                                                                                                          lg, 
                                                                                                                                                                                                                          jx, 
                                                                                                                                                                                                                          ch, 
                                                                                                                                                                                                                          lv, 
                                                                                                                                                                                                                          snap >>
                                                                                                                                                                                                     ELSE /\ IF to[self].r = "up"
                                                                                                                                                                                                                THEN /\ IF m[self].t = "H"
                                                                                                                                                                                                                           THEN /\ nd' = [nd EXCEPT ![to[self].n].utb = m[self].tb]
                                                                                                                                                                                                                                /\ pc' = [pc EXCEPT ![self] = "SH3"]
                                                                                                                                                                                                                                /\ UNCHANGED << jx, 
                                                                                                                                                                                                                                                snap >>
                                                                                                                                                                                                                           ELSE /\ snap' = [snap EXCEPT ![self] = nd[to[self].n].sinks]
                                                                                                                                                                                                                                /\ jx' = [jx EXCEPT ![self] = 1]
                                                                                                                                                                                                                                /\ pc' = [pc EXCEPT ![self] = "SH5"]
                                                                                                                                                                                                                                /\ nd' = nd
                                                                                                                                                                                                                     /\ UNCHANGED << obs, 
                                                                                                                                                                                                                                     panicked, 
                                                                                                                                                                                                                                     stack, 
                                                                                                                                                                                                                                     fr, 
                                                                                                                                                                                                                                     to, 
                                                                                                                                                                                                                                     m, 
                                                                                                                                                                                                                                     lg, 
                                                                                                                                                                                                                                     sx, 
                                                                                                                                                                                                                                     ch, 
                                                                                                                                                                                                                                     lv >>
                                                                                                                                                                                                                ELSE /\ IF m[self].t \in {"H", "D"}
                                                                                                                                                                                                                           THEN /\ obs' = LogO(obs \o [q \in 1..OpenCount(obs, 1, 0) |-> RetEv(ThOf(self))],
                                                                                                                                                                                                                                               Ev("panic", ThOf(self), "", "", "", 0))
                                                                                                                                                                                                                                /\ panicked' = TRUE
                                                                                                                                                                                                                                /\ pc' = [pc EXCEPT ![self] = "Halt"]
                                                                                                                                                                                                                                /\ UNCHANGED << nd, 
                                                                                                                                                                                                                                                stack, 
                                                                                                                                                                                                                                                fr, 
                                                                                                                                                                                                                                                to, 
                                                                                                                                                                                                                                                m, 
                                                                                                                                                                                                                                                lg, 
                                                                                                                                                                                                                                                sx, 
                                                                                                                                                                                                                                                jx, 
                                                                                                                                                                                                                                                ch, 
                                                                                                                                                                                                                                                lv, 
                                                                                                                                                                                                                                                snap >>
                                                                                                                                                                                                                           ELSE /\ IF m[self].t = "P"
                                                                                                                                                                                                                                      THEN /\ IF nd[to[self].n].utb = NoRef
                                                                                                                                                                                                                                                 THEN /\ obs' = LogO(obs \o [q \in 1..OpenCount(obs, 1, 0) |-> RetEv(ThOf(self))],
                                                                                                                                                                                                                                                                     Ev("panic", ThOf(self), "", "", "", 0))
                                                                                                                                                                                                                                                      /\ panicked' = TRUE
                                                                                                                                                                                                                                                      /\ pc' = [pc EXCEPT ![self] = "Halt"]
                                                                                                                                                                                                                                                      /\ UNCHANGED << stack, 
                                                                                                                                                                                                                                                                      fr, 
                                                                                                                                                                                                                                                                      to, 
                                                                                                                                                                                                                                                                      m, 
                                                                                                                                                                                                                                                                      lg, 
                                                                                                                                                                                                                                                                      sx, 
                                                                                                                                                                                                                                                                      jx, 
                                                                                                                                                                                                                                                                      ch, 
                                                                                                                                                                                                                                                                      lv, 
                                                                                                                                                                                                                                                                      snap >>
                                                                                                                                                                                                                                                 ELSE /\ /\ fr' = [fr EXCEPT ![self] = "S"]
                                                                                                                                                                                                                                                         /\ m' = [m EXCEPT ![self] = m[self]]
                                                                                                                                                                                                                                                         /\ stack' = [stack EXCEPT ![self] = << [ procedure |->  "Deliver",
                                                                                                                                                                                                                                                                                                  pc        |->  "SH8",
                                                                                                                                                                                                                                                                                                  lg        |->  lg[self],
                                                                                                                                                                                                                                                                                                  sx        |->  sx[self],
                                                                                                                                                                                                                                                                                                  jx        |->  jx[self],
                                                                                                                                                                                                                                                                                                  ch        |->  ch[self],
                                                                                                                                                                                                                                                                                                  lv        |->  lv[self],
                                                                                                                                                                                                                                                                                                  snap      |->  snap[self],
                                                                                                                                                                                                                                                                                                  fr        |->  fr[self],
                                                                                                                                                                                                                                                                                                  to        |->  to[self],
                                                                                                                                                                                                                                                                                                  m         |->  m[self] ] >>
                                                                                                                                                                                                                                                                                              \o stack[self]]
                                                                                                                                                                                                                                                         /\ to' = [to EXCEPT ![self] = nd[to[self].n].utb]
                                                                                                                                                                                                                                                      /\ lg' = [lg EXCEPT ![self] = FALSE]
                                                                                                                                                                                                                                                      /\ sx' = [sx EXCEPT ![self] = 0]
                                                                                                                                                                                                                                                      /\ jx' = [jx EXCEPT ![self] = 0]
                                                                                                                                                                                                                                                      /\ ch' = [ch EXCEPT ![self] = ""]
                                                                                                                                                                                                                                                      /\ lv' = [lv EXCEPT ![self] = 0]
                                                                                                                                                                                                                                                      /\ snap' = [snap EXCEPT ![self] = <<>>]
                                                                                                                                                                                                                                                      /\ pc' = [pc EXCEPT ![self] = "DStart"]
                                                                                                                                                                                                                                                      /\ UNCHANGED << obs, 
                                                                                                                                                                                                                                                                      panicked >>
                                                                                                                                                                                                                                           /\ nd' = nd
                                                                                                                                                                                                                                      ELSE /\ IF IndexOf(nd[to[self].n].sinks, S(to[self]).sink) # 0
                                                                                                                                                                                                                                                 THEN /\ nd' = [nd EXCEPT ![to[self].n].sinks = RemoveAt(nd[to[self].n].sinks, IndexOf(nd[to[self].n].sinks, S(to[self]).sink))]
                                                                                                                                                                                                                                                 ELSE /\ TRUE
                                                                                                                                                                                                                                                      /\ nd' = nd
                                                                                                                                                                                                                                           /\ pc' = [pc EXCEPT ![self] = "SH9"]
                                                                                                                                                                                                                                           /\ UNCHANGED << obs, 
                                                                                                                                                                                                                                                           panicked, 
                                                                                                                                                                                                                                                           stack, 
                                                                                                                                                                                                                                                           fr, 
                                                                                                                                                                                                                                                           to, 
                                                                                                                                                                                                                                                           m, 
                                                                                                                                                                                                                                                           lg, 
                                                                                                                                                                                                                                                           sx, 
                                                                                                                                                                                                                                                           jx, 
                                                                                                                                                                                                                                                           ch, 
                                                                                                                                                                                                                                                           lv, 
                                                                                                                                                                                                                                                           snap >>
                                                                                                                                                                                                          /\ st' = st
                                                                                                                                                                                               /\ UNCHANGED << tasks, 
                                                                                                                                                                                                               script >>
                                                                                                                                                                                          ELSE /\ IF Kind(to[self].n) = "interval"
                                                                                                                                                                                                     THEN /\ IF to[self].r = "src"
                                                                                                                                                                                                                THEN /\ IF m[self].t = "H"
                                                                                                                                                                                                                           THEN /\ sx' = [sx EXCEPT ![self] = Len(st[to[self].n]) + 1]
                                                                                                                                                                                                                                /\ st' = [st EXCEPT ![to[self].n] = Append(st[to[self].n], InitSt(to[self].n, m[self].tb))]
                                                                                                                                                                                                                                /\ \E c \in SpawnOpts:
                                                                                                                                                                                                                                     /\ script' = LogS(script, <<"spawn", TName(Len(tasks) + 1), c>>)
                                                                                                                                                                                                                                     /\ obs' = LogO(obs, Ev("spawn", ThOf(self), "", TName(Len(tasks) + 1), c, 0))
                                                                                                                                                                                                                                     /\ ch' = [ch EXCEPT ![self] = c]
                                                                                                                                                                                                                                     /\ tasks' = Append(tasks, [node |-> to[self].n, sub |-> sx'[self], ok |-> (c = "ok"),
                                                                                                                                                                                                                                                                started |-> (c # "ok"), armed |-> FALSE, deadline |-> 0,
                                                                                                                                                                                                                                                                finished |-> FALSE])
                                                                                                                                                                                                                                /\ pc' = [pc EXCEPT ![self] = "IV1"]
                                                                                                                                                                                                                           ELSE /\ pc' = [pc EXCEPT ![self] = "Ret"]
                                                                                                                                                                                                                                /\ UNCHANGED << st, 
                                                                                                                                                                                                                                                tasks, 
                                                                                                                                                                                                                                                obs, 
                                                                                                                                                                                                                                                script, 
                                                                                                                                                                                                                                                sx, 
                                                                                                                                                                                                                                                ch >>
                                                                                                                                                                                                                ELSE /\ IF IsEnd(m[self])
                                                                                                                                                                                                                           THEN /\ st' = [st EXCEPT ![to[self].n][to[self].s].cleared = TRUE]
                                                                                                                                                                                                                           ELSE /\ TRUE
                                                                                                                                                                                                                                /\ st' = st
                                                                                                                                                                                                                     /\ pc' = [pc EXCEPT ![self] = "Ret"]
                                                                                                                                                                                                                     /\ UNCHANGED << tasks, 
                                                                                                                                                                                                                                     obs, 
                                                                                                                                                                                                                                     script, 
                                                                                                                                                                                                                                     sx, 
                                                                                                                                                                                                                                     ch >>
                                                                                                                                                                                                     ELSE /\ Assert(FALSE, 
                                                                                                                                                                                                                    "Failure of assertion at line 1244, column 5.")
                                                                                                                                                                                                          /\ pc' = [pc EXCEPT ![self] = "Ret"]
                                                                                                                                                                                                          /\ UNCHANGED << st, 
                                                                                                                                                                                                                          tasks, 
                                                                                                                                                                                                                          obs, 
                                                                                                                                                                                                                          script, 
                                                                                                                                                                                                                          sx, 
                                                                                                                                                                                                                          ch >>
                                                                                                                                                                                               /\ UNCHANGED << nd, 
                                                                                                                                                                                                               panicked, 
                                                                                                                                                                                                               stack, 
                                                                                                                                                                                                               fr, 
                                                                                                                                                                                                               to, 
                                                                                                                                                                                                               m, 
                                                                                                                                                                                                               lg, 
                                                                                                                                                                                                               jx, 
                                                                                                                                                                                                               lv, 
                                                                                                                                                                                                               snap >>
                                                                                 /\ fi' = fi
                                                           /\ sk' = sk
                                                /\ pi' = pi
                          /\ mon' = mon
               /\ UNCHANGED << ci, now, ntop, started, done, ka, ca, gx, ex, 
                               nx, fx, bx, bc, tx, ta, tc, ft, act, sj, tk >>

K1(self) == /\ pc[self] = "K1"
            /\ IF IsThr /\ m[self].t = "D"
                  THEN /\ mon' = [mon EXCEPT !.open = mon.open - 1]
                  ELSE /\ TRUE
                       /\ mon' = mon
            /\ jx' = [jx EXCEPT ![self] = 0]
            /\ lv' = [lv EXCEPT ![self] = 0]
            /\ pc' = [pc EXCEPT ![self] = "K1a"]
            /\ UNCHANGED << ci, st, nd, sk, pi, fi, tasks, now, obs, script, 
                            ntop, panicked, started, done, stack, fr, to, m, 
                            lg, sx, ch, snap, ka, ca, gx, ex, nx, fx, bx, bc, 
                            tx, ta, tc, ft, act, sj, tk >>

K1a(self) == /\ pc[self] = "K1a"
             /\ IF jx[self] < CFG.maxReact /\ ~CFG.passive /\ m[self].t \in {"H", "D"} /\ SinkLive(to[self].s) /\ sk[to[self].s].tb # NoRef
                   THEN /\ \E c \in SinkOpts(to[self].s, FALSE) \ (IF lv[self] = 1 THEN {"pull"} ELSE {}):
                             /\ script' = LogS(script, <<"sink", KName(to[self].s), c>>)
                             /\ ch' = [ch EXCEPT ![self] = c]
                        /\ pc' = [pc EXCEPT ![self] = "K2"]
                   ELSE /\ pc' = [pc EXCEPT ![self] = "K2b"]
                        /\ UNCHANGED << script, ch >>
             /\ UNCHANGED << ci, st, nd, sk, pi, fi, tasks, now, obs, ntop, 
                             panicked, started, mon, done, stack, fr, to, m, 
                             lg, sx, jx, lv, snap, ka, ca, gx, ex, nx, fx, bx, 
                             bc, tx, ta, tc, ft, act, sj, tk >>

K2(self) == /\ pc[self] = "K2"
            /\ IF ch[self] = "none"
                  THEN /\ pc' = [pc EXCEPT ![self] = "K3"]
                       /\ UNCHANGED << jx, lv >>
                  ELSE /\ jx' = [jx EXCEPT ![self] = jx[self] + 1]
                       /\ lv' = [lv EXCEPT ![self] = IF ch[self] = "pull" THEN 1 ELSE lv[self]]
                       /\ pc' = [pc EXCEPT ![self] = "K2a"]
            /\ UNCHANGED << ci, st, nd, sk, pi, fi, tasks, now, obs, script, 
                            ntop, panicked, started, mon, done, stack, fr, to, 
                            m, lg, sx, ch, snap, ka, ca, gx, ex, nx, fx, bx, 
                            bc, tx, ta, tc, ft, act, sj, tk >>

K2a(self) == /\ pc[self] = "K2a"
             /\ /\ ca' = [ca EXCEPT ![self] = ch[self]]
                /\ ka' = [ka EXCEPT ![self] = to[self].s]
                /\ stack' = [stack EXCEPT ![self] = << [ procedure |->  "SinkAct",
                                                         pc        |->  "K1a",
                                                         ka        |->  ka[self],
                                                         ca        |->  ca[self] ] >>
                                                     \o stack[self]]
             /\ pc' = [pc EXCEPT ![self] = "SA0"]
             /\ UNCHANGED << ci, st, nd, sk, pi, fi, tasks, now, obs, script, 
                             ntop, panicked, started, mon, done, fr, to, m, lg, 
                             sx, jx, ch, lv, snap, gx, ex, nx, fx, bx, bc, tx, 
                             ta, tc, ft, act, sj, tk >>

K2b(self) == /\ pc[self] = "K2b"
             /\ IF (CFG.cross \/ CFG.reentrant) /\ IsEnd(m[self]) /\ ~CFG.passive /\ EndHandlerOpts(to[self].s) # {}
                   THEN /\ \E c \in {"none"} \cup EndHandlerOpts(to[self].s):
                             /\ script' = LogS(script, <<"sink", KName(to[self].s), c>>)
                             /\ ch' = [ch EXCEPT ![self] = c]
                        /\ pc' = [pc EXCEPT ![self] = "K2c"]
                   ELSE /\ pc' = [pc EXCEPT ![self] = "K3"]
                        /\ UNCHANGED << script, ch >>
             /\ UNCHANGED << ci, st, nd, sk, pi, fi, tasks, now, obs, ntop, 
                             panicked, started, mon, done, stack, fr, to, m, 
                             lg, sx, jx, lv, snap, ka, ca, gx, ex, nx, fx, bx, 
                             bc, tx, ta, tc, ft, act, sj, tk >>

K2c(self) == /\ pc[self] = "K2c"
             /\ IF ch[self] # "none"
                   THEN /\ /\ ca' = [ca EXCEPT ![self] = ch[self]]
                           /\ ka' = [ka EXCEPT ![self] = to[self].s]
                           /\ stack' = [stack EXCEPT ![self] = << [ procedure |->  "SinkAct",
                                                                    pc        |->  "K3",
                                                                    ka        |->  ka[self],
                                                                    ca        |->  ca[self] ] >>
                                                                \o stack[self]]
                        /\ pc' = [pc EXCEPT ![self] = "SA0"]
                   ELSE /\ pc' = [pc EXCEPT ![self] = "K3"]
                        /\ UNCHANGED << stack, ka, ca >>
             /\ UNCHANGED << ci, st, nd, sk, pi, fi, tasks, now, obs, script, 
                             ntop, panicked, started, mon, done, fr, to, m, lg, 
                             sx, jx, ch, lv, snap, gx, ex, nx, fx, bx, bc, tx, 
                             ta, tc, ft, act, sj, tk >>

K3(self) == /\ pc[self] = "K3"
            /\ sk' = [sk EXCEPT ![to[self].s].busy = sk[to[self].s].busy - 1]
            /\ pc' = [pc EXCEPT ![self] = "Ret"]
            /\ UNCHANGED << ci, st, nd, pi, fi, tasks, now, obs, script, ntop, 
                            panicked, started, mon, done, stack, fr, to, m, lg, 
                            sx, jx, ch, lv, snap, ka, ca, gx, ex, nx, fx, bx, 
                            bc, tx, ta, tc, ft, act, sj, tk >>

P1(self) == /\ pc[self] = "P1"
            /\ IF ch[self] = "now"
                  THEN /\ /\ gx' = [gx EXCEPT ![self] = sx[self]]
                          /\ stack' = [stack EXCEPT ![self] = << [ procedure |->  "Greet",
                                                                   pc        |->  "P2",
                                                                   gx        |->  gx[self] ] >>
                                                               \o stack[self]]
                       /\ pc' = [pc EXCEPT ![self] = "G0"]
                       /\ pi' = pi
                  ELSE /\ pi' = [pi EXCEPT ![sx[self]].pending = TRUE]
                       /\ pc' = [pc EXCEPT ![self] = "P3"]
                       /\ UNCHANGED << stack, gx >>
            /\ UNCHANGED << ci, st, nd, sk, fi, tasks, now, obs, script, ntop, 
                            panicked, started, mon, done, fr, to, m, lg, sx, 
                            jx, ch, lv, snap, ka, ca, ex, nx, fx, bx, bc, tx, 
                            ta, tc, ft, act, sj, tk >>

P2(self) == /\ pc[self] = "P2"
            /\ /\ bx' = [bx EXCEPT ![self] = sx[self]]
               /\ stack' = [stack EXCEPT ![self] = << [ procedure |->  "Burst",
                                                        pc        |->  "P3",
                                                        bc        |->  bc[self],
                                                        bx        |->  bx[self] ] >>
                                                    \o stack[self]]
            /\ bc' = [bc EXCEPT ![self] = ""]
            /\ pc' = [pc EXCEPT ![self] = "B0"]
            /\ UNCHANGED << ci, st, nd, sk, pi, fi, tasks, now, obs, script, 
                            ntop, panicked, started, mon, done, fr, to, m, lg, 
                            sx, jx, ch, lv, snap, ka, ca, gx, ex, nx, fx, tx, 
                            ta, tc, ft, act, sj, tk >>

P3(self) == /\ pc[self] = "P3"
            /\ pc' = [pc EXCEPT ![self] = "Ret"]
            /\ UNCHANGED << ci, st, nd, sk, pi, fi, tasks, now, obs, script, 
                            ntop, panicked, started, mon, done, stack, fr, to, 
                            m, lg, sx, jx, ch, lv, snap, ka, ca, gx, ex, nx, 
                            fx, bx, bc, tx, ta, tc, ft, act, sj, tk >>

T1(self) == /\ pc[self] = "T1"
            /\ IF ch[self] = "data"
                  THEN /\ /\ ex' = [ex EXCEPT ![self] = to[self].s]
                          /\ stack' = [stack EXCEPT ![self] = << [ procedure |->  "Emit",
                                                                   pc        |->  "T2",
                                                                   ex        |->  ex[self] ] >>
                                                               \o stack[self]]
                       /\ pc' = [pc EXCEPT ![self] = "E0"]
                       /\ UNCHANGED << pi, obs, nx, fx, tx, ta, tc >>
                  ELSE /\ IF ch[self] = "dataend"
                             THEN /\ /\ ex' = [ex EXCEPT ![self] = to[self].s]
                                     /\ stack' = [stack EXCEPT ![self] = << [ procedure |->  "Emit",
                                                                              pc        |->  "T1a",
                                                                              ex        |->  ex[self] ] >>
                                                                          \o stack[self]]
                                  /\ pc' = [pc EXCEPT ![self] = "E0"]
                                  /\ UNCHANGED << pi, obs, nx, fx, tx, ta, tc >>
                             ELSE /\ IF ch[self] = "end"
                                        THEN /\ /\ nx' = [nx EXCEPT ![self] = to[self].s]
                                                /\ stack' = [stack EXCEPT ![self] = << [ procedure |->  "EndP",
                                                                                         pc        |->  "T2",
                                                                                         nx        |->  nx[self] ] >>
                                                                                     \o stack[self]]
                                             /\ pc' = [pc EXCEPT ![self] = "N0"]
                                             /\ UNCHANGED << pi, obs, fx, tx, 
                                                             ta, tc >>
                                        ELSE /\ IF ch[self] = "err"
                                                   THEN /\ /\ fx' = [fx EXCEPT ![self] = to[self].s]
                                                           /\ stack' = [stack EXCEPT ![self] = << [ procedure |->  "FailP",
                                                                                                    pc        |->  "T2",
                                                                                                    fx        |->  fx[self] ] >>
                                                                                                \o stack[self]]
                                                        /\ pc' = [pc EXCEPT ![self] = "F0"]
                                                        /\ UNCHANGED << pi, 
                                                                        obs, 
                                                                        tx, ta, 
                                                                        tc >>
                                                   ELSE /\ IF ch[self] = "defer"
                                                              THEN /\ pi' = [pi EXCEPT ![to[self].s].deferred = pi[to[self].s].deferred + 1]
                                                                   /\ obs' = LogO(obs, Ev("note", ThOf(self), "", IName(to[self].s), "defer", 0))
                                                                   /\ pc' = [pc EXCEPT ![self] = "T2"]
                                                                   /\ UNCHANGED << stack, 
                                                                                   tx, 
                                                                                   ta, 
                                                                                   tc >>
                                                              ELSE /\ IF \E q \in 1..Len(pi) : ch[self] = "kickgreet " \o IName(q)
                                                                         THEN /\ /\ stack' = [stack EXCEPT ![self] = << [ procedure |->  "PupTop",
                                                                                                                          pc        |->  "T2",
                                                                                                                          tc        |->  tc[self],
                                                                                                                          tx        |->  tx[self],
                                                                                                                          ta        |->  ta[self] ] >>
                                                                                                                      \o stack[self]]
                                                                                 /\ ta' = [ta EXCEPT ![self] = "greet"]
                                                                                 /\ tx' = [tx EXCEPT ![self] = CHOOSE q \in 1..Len(pi) : ch[self] = "kickgreet " \o IName(q)]
                                                                              /\ tc' = [tc EXCEPT ![self] = ""]
                                                                              /\ pc' = [pc EXCEPT ![self] = "PT0"]
                                                                         ELSE /\ pc' = [pc EXCEPT ![self] = "T2"]
                                                                              /\ UNCHANGED << stack, 
                                                                                              tx, 
                                                                                              ta, 
                                                                                              tc >>
                                                                   /\ UNCHANGED << pi, 
                                                                                   obs >>
                                                        /\ fx' = fx
                                             /\ nx' = nx
                                  /\ ex' = ex
            /\ UNCHANGED << ci, st, nd, sk, fi, tasks, now, script, ntop, 
                            panicked, started, mon, done, fr, to, m, lg, sx, 
                            jx, ch, lv, snap, ka, ca, gx, bx, bc, ft, act, sj, 
                            tk >>

T1a(self) == /\ pc[self] = "T1a"
             /\ IF PupLive(to[self].s)
                   THEN /\ /\ nx' = [nx EXCEPT ![self] = to[self].s]
                           /\ stack' = [stack EXCEPT ![self] = << [ procedure |->  "EndP",
                                                                    pc        |->  "T2",
                                                                    nx        |->  nx[self] ] >>
                                                                \o stack[self]]
                        /\ pc' = [pc EXCEPT ![self] = "N0"]
                   ELSE /\ pc' = [pc EXCEPT ![self] = "T2"]
                        /\ UNCHANGED << stack, nx >>
             /\ UNCHANGED << ci, st, nd, sk, pi, fi, tasks, now, obs, script, 
                             ntop, panicked, started, mon, done, fr, to, m, lg, 
                             sx, jx, ch, lv, snap, ka, ca, gx, ex, fx, bx, bc, 
                             tx, ta, tc, ft, act, sj, tk >>

T2(self) == /\ pc[self] = "T2"
            /\ pc' = [pc EXCEPT ![self] = "Ret"]
            /\ UNCHANGED << ci, st, nd, sk, pi, fi, tasks, now, obs, script, 
                            ntop, panicked, started, mon, done, stack, fr, to, 
                            m, lg, sx, jx, ch, lv, snap, ka, ca, gx, ex, nx, 
                            fx, bx, bc, tx, ta, tc, ft, act, sj, tk >>

FE1(self) == /\ pc[self] = "FE1"
             /\ /\ fr' = [fr EXCEPT ![self] = IF SinkKind(to[self].s) = "foreach" THEN KName(to[self].s) ELSE "S"]
                /\ m' = [m EXCEPT ![self] = Msg("P")]
                /\ stack' = [stack EXCEPT ![self] = << [ procedure |->  "Deliver",
                                                         pc        |->  "FE2",
                                                         lg        |->  lg[self],
                                                         sx        |->  sx[self],
                                                         jx        |->  jx[self],
                                                         ch        |->  ch[self],
                                                         lv        |->  lv[self],
                                                         snap      |->  snap[self],
                                                         fr        |->  fr[self],
                                                         to        |->  to[self],
                                                         m         |->  m[self] ] >>
                                                     \o stack[self]]
                /\ to' = [to EXCEPT ![self] = sk[to[self].s].tb]
             /\ lg' = [lg EXCEPT ![self] = FALSE]
             /\ sx' = [sx EXCEPT ![self] = 0]
             /\ jx' = [jx EXCEPT ![self] = 0]
             /\ ch' = [ch EXCEPT ![self] = ""]
             /\ lv' = [lv EXCEPT ![self] = 0]
             /\ snap' = [snap EXCEPT ![self] = <<>>]
             /\ pc' = [pc EXCEPT ![self] = "DStart"]
             /\ UNCHANGED << ci, st, nd, sk, pi, fi, tasks, now, obs, script, 
                             ntop, panicked, started, mon, done, ka, ca, gx, 
                             ex, nx, fx, bx, bc, tx, ta, tc, ft, act, sj, tk >>

FE2(self) == /\ pc[self] = "FE2"
             /\ pc' = [pc EXCEPT ![self] = "Ret"]
             /\ UNCHANGED << ci, st, nd, sk, pi, fi, tasks, now, obs, script, 
                             ntop, panicked, started, mon, done, stack, fr, to, 
                             m, lg, sx, jx, ch, lv, snap, ka, ca, gx, ex, nx, 
                             fx, bx, bc, tx, ta, tc, ft, act, sj, tk >>

FE3(self) == /\ pc[self] = "FE3"
             /\ IF sk[to[self].s].tb = NoRef
                   THEN /\ obs' = LogO(obs \o [q \in 1..OpenCount(obs, 1, 0) |-> RetEv(ThOf(self))],
                                       Ev("panic", ThOf(self), "", "", "", 0))
                        /\ panicked' = TRUE
                        /\ pc' = [pc EXCEPT ![self] = "Halt"]
                        /\ UNCHANGED << stack, fr, to, m, lg, sx, jx, ch, lv, 
                                        snap >>
                   ELSE /\ /\ fr' = [fr EXCEPT ![self] = IF SinkKind(to[self].s) = "foreach" THEN KName(to[self].s) ELSE "S"]
                           /\ m' = [m EXCEPT ![self] = Msg("P")]
                           /\ stack' = [stack EXCEPT ![self] = << [ procedure |->  "Deliver",
                                                                    pc        |->  "FE4",
                                                                    lg        |->  lg[self],
                                                                    sx        |->  sx[self],
                                                                    jx        |->  jx[self],
                                                                    ch        |->  ch[self],
                                                                    lv        |->  lv[self],
                                                                    snap      |->  snap[self],
                                                                    fr        |->  fr[self],
                                                                    to        |->  to[self],
                                                                    m         |->  m[self] ] >>
                                                                \o stack[self]]
                           /\ to' = [to EXCEPT ![self] = sk[to[self].s].tb]
                        /\ lg' = [lg EXCEPT ![self] = FALSE]
                        /\ sx' = [sx EXCEPT ![self] = 0]
                        /\ jx' = [jx EXCEPT ![self] = 0]
                        /\ ch' = [ch EXCEPT ![self] = ""]
                        /\ lv' = [lv EXCEPT ![self] = 0]
                        /\ snap' = [snap EXCEPT ![self] = <<>>]
                        /\ pc' = [pc EXCEPT ![self] = "DStart"]
                        /\ UNCHANGED << obs, panicked >>
             /\ UNCHANGED << ci, st, nd, sk, pi, fi, tasks, now, script, ntop, 
                             started, mon, done, ka, ca, gx, ex, nx, fx, bx, 
                             bc, tx, ta, tc, ft, act, sj, tk >>

FE4(self) == /\ pc[self] = "FE4"
             /\ pc' = [pc EXCEPT ![self] = "Ret"]
             /\ UNCHANGED << ci, st, nd, sk, pi, fi, tasks, now, obs, script, 
                             ntop, panicked, started, mon, done, stack, fr, to, 
                             m, lg, sx, jx, ch, lv, snap, ka, ca, gx, ex, nx, 
                             fx, bx, bc, tx, ta, tc, ft, act, sj, tk >>

FR1(self) == /\ pc[self] = "FR1"
             /\ /\ fr' = [fr EXCEPT ![self] = "S"]
                /\ m' = [m EXCEPT ![self] = MsgH(Ref(0, "fitb", sx[self], 0))]
                /\ stack' = [stack EXCEPT ![self] = << [ procedure |->  "Deliver",
                                                         pc        |->  "FR2",
                                                         lg        |->  lg[self],
                                                         sx        |->  sx[self],
                                                         jx        |->  jx[self],
                                                         ch        |->  ch[self],
                                                         lv        |->  lv[self],
                                                         snap      |->  snap[self],
                                                         fr        |->  fr[self],
                                                         to        |->  to[self],
                                                         m         |->  m[self] ] >>
                                                     \o stack[self]]
                /\ to' = [to EXCEPT ![self] = m[self].tb]
             /\ lg' = [lg EXCEPT ![self] = FALSE]
             /\ sx' = [sx EXCEPT ![self] = 0]
             /\ jx' = [jx EXCEPT ![self] = 0]
             /\ ch' = [ch EXCEPT ![self] = ""]
             /\ lv' = [lv EXCEPT ![self] = 0]
             /\ snap' = [snap EXCEPT ![self] = <<>>]
             /\ pc' = [pc EXCEPT ![self] = "DStart"]
             /\ UNCHANGED << ci, st, nd, sk, pi, fi, tasks, now, obs, script, 
                             ntop, panicked, started, mon, done, ka, ca, gx, 
                             ex, nx, fx, bx, bc, tx, ta, tc, ft, act, sj, tk >>

FR2(self) == /\ pc[self] = "FR2"
             /\ pc' = [pc EXCEPT ![self] = "Ret"]
             /\ UNCHANGED << ci, st, nd, sk, pi, fi, tasks, now, obs, script, 
                             ntop, panicked, started, mon, done, stack, fr, to, 
                             m, lg, sx, jx, ch, lv, snap, ka, ca, gx, ex, nx, 
                             fx, bx, bc, tx, ta, tc, ft, act, sj, tk >>

FR3(self) == /\ pc[self] = "FR3"
             /\ IF ~fi[to[self].s].inloop /\ ~fi[to[self].s].resdone
                   THEN /\ fi' = [fi EXCEPT ![to[self].s].inloop = TRUE]
                        /\ pc' = [pc EXCEPT ![self] = "FR4"]
                   ELSE /\ pc' = [pc EXCEPT ![self] = "FR9"]
                        /\ fi' = fi
             /\ UNCHANGED << ci, st, nd, sk, pi, tasks, now, obs, script, ntop, 
                             panicked, started, mon, done, stack, fr, to, m, 
                             lg, sx, jx, ch, lv, snap, ka, ca, gx, ex, nx, fx, 
                             bx, bc, tx, ta, tc, ft, act, sj, tk >>

FR4(self) == /\ pc[self] = "FR4"
             /\ IF fi[to[self].s].gotpull /\ ~fi[to[self].s].completed
                   THEN /\ lv' = [lv EXCEPT ![self] = IF fi[to[self].s].unbounded
                                                      THEN (IF fi[to[self].s].pos >= fi[to[self].s].limit THEN -1 ELSE fi[to[self].s].pos + 1)
                                                      ELSE (IF fi[to[self].s].pos < Len(fi[to[self].s].items) THEN fi[to[self].s].items[fi[to[self].s].pos + 1] ELSE -1)]
                        /\ fi' = [fi EXCEPT ![to[self].s] = [fi[to[self].s] EXCEPT !.gotpull = FALSE, !.pos = @ + 1, !.resdone = (lv'[self] = -1)]]
                        /\ IF fi'[to[self].s].name # ""
                              THEN /\ obs' = LogO(IF fi'[to[self].s].unbounded /\ lv'[self] = -1
                                                  THEN LogO(obs, Ev("runaway", ThOf(self), "", fi'[to[self].s].name, "", fi'[to[self].s].pos - 1))
                                                  ELSE obs,
                                                  Ev("next", ThOf(self), "", fi'[to[self].s].name, "", lv'[self]))
                              ELSE /\ TRUE
                                   /\ obs' = obs
                        /\ pc' = [pc EXCEPT ![self] = "FR5"]
                   ELSE /\ pc' = [pc EXCEPT ![self] = "FR8"]
                        /\ UNCHANGED << fi, obs, lv >>
             /\ UNCHANGED << ci, st, nd, sk, pi, tasks, now, script, ntop, 
                             panicked, started, mon, done, stack, fr, to, m, 
                             lg, sx, jx, ch, snap, ka, ca, gx, ex, nx, fx, bx, 
                             bc, tx, ta, tc, ft, act, sj, tk >>

FR5(self) == /\ pc[self] = "FR5"
             /\ IF fi[to[self].s].resdone
                   THEN /\ /\ fr' = [fr EXCEPT ![self] = "S"]
                           /\ m' = [m EXCEPT ![self] = Msg("T")]
                           /\ stack' = [stack EXCEPT ![self] = << [ procedure |->  "Deliver",
                                                                    pc        |->  "FR6",
                                                                    lg        |->  lg[self],
                                                                    sx        |->  sx[self],
                                                                    jx        |->  jx[self],
                                                                    ch        |->  ch[self],
                                                                    lv        |->  lv[self],
                                                                    snap      |->  snap[self],
                                                                    fr        |->  fr[self],
                                                                    to        |->  to[self],
                                                                    m         |->  m[self] ] >>
                                                                \o stack[self]]
                           /\ to' = [to EXCEPT ![self] = fi[to[self].s].sink]
                        /\ lg' = [lg EXCEPT ![self] = FALSE]
                        /\ sx' = [sx EXCEPT ![self] = 0]
                        /\ jx' = [jx EXCEPT ![self] = 0]
                        /\ ch' = [ch EXCEPT ![self] = ""]
                        /\ lv' = [lv EXCEPT ![self] = 0]
                        /\ snap' = [snap EXCEPT ![self] = <<>>]
                        /\ pc' = [pc EXCEPT ![self] = "DStart"]
                   ELSE /\ /\ fr' = [fr EXCEPT ![self] = "S"]
                           /\ m' = [m EXCEPT ![self] = MsgD(lv[self])]
                           /\ stack' = [stack EXCEPT ![self] = << [ procedure |->  "Deliver",
                                                                    pc        |->  "FR7",
                                                                    lg        |->  lg[self],
                                                                    sx        |->  sx[self],
                                                                    jx        |->  jx[self],
                                                                    ch        |->  ch[self],
                                                                    lv        |->  lv[self],
                                                                    snap      |->  snap[self],
                                                                    fr        |->  fr[self],
                                                                    to        |->  to[self],
                                                                    m         |->  m[self] ] >>
                                                                \o stack[self]]
                           /\ to' = [to EXCEPT ![self] = fi[to[self].s].sink]
                        /\ lg' = [lg EXCEPT ![self] = FALSE]
                        /\ sx' = [sx EXCEPT ![self] = 0]
                        /\ jx' = [jx EXCEPT ![self] = 0]
                        /\ ch' = [ch EXCEPT ![self] = ""]
                        /\ lv' = [lv EXCEPT ![self] = 0]
                        /\ snap' = [snap EXCEPT ![self] = <<>>]
                        /\ pc' = [pc EXCEPT ![self] = "DStart"]
             /\ UNCHANGED << ci, st, nd, sk, pi, fi, tasks, now, obs, script, 
                             ntop, panicked, started, mon, done, ka, ca, gx, 
                             ex, nx, fx, bx, bc, tx, ta, tc, ft, act, sj, tk >>

FR6(self) == /\ pc[self] = "FR6"
             /\ pc' = [pc EXCEPT ![self] = "FR8"]
             /\ UNCHANGED << ci, st, nd, sk, pi, fi, tasks, now, obs, script, 
                             ntop, panicked, started, mon, done, stack, fr, to, 
                             m, lg, sx, jx, ch, lv, snap, ka, ca, gx, ex, nx, 
                             fx, bx, bc, tx, ta, tc, ft, act, sj, tk >>

FR7(self) == /\ pc[self] = "FR7"
             /\ TRUE
             /\ pc' = [pc EXCEPT ![self] = "FR4"]
             /\ UNCHANGED << ci, st, nd, sk, pi, fi, tasks, now, obs, script, 
                             ntop, panicked, started, mon, done, stack, fr, to, 
                             m, lg, sx, jx, ch, lv, snap, ka, ca, gx, ex, nx, 
                             fx, bx, bc, tx, ta, tc, ft, act, sj, tk >>

FR8(self) == /\ pc[self] = "FR8"
             /\ fi' = [fi EXCEPT ![to[self].s].inloop = FALSE]
             /\ pc' = [pc EXCEPT ![self] = "FR9"]
             /\ UNCHANGED << ci, st, nd, sk, pi, tasks, now, obs, script, ntop, 
                             panicked, started, mon, done, stack, fr, to, m, 
                             lg, sx, jx, ch, lv, snap, ka, ca, gx, ex, nx, fx, 
                             bx, bc, tx, ta, tc, ft, act, sj, tk >>

FR9(self) == /\ pc[self] = "FR9"
             /\ pc' = [pc EXCEPT ![self] = "Ret"]
             /\ UNCHANGED << ci, st, nd, sk, pi, fi, tasks, now, obs, script, 
                             ntop, panicked, started, mon, done, stack, fr, to, 
                             m, lg, sx, jx, ch, lv, snap, ka, ca, gx, ex, nx, 
                             fx, bx, bc, tx, ta, tc, ft, act, sj, tk >>

MP1(self) == /\ pc[self] = "MP1"
             /\ /\ fr' = [fr EXCEPT ![self] = "S"]
                /\ m' = [m EXCEPT ![self] = MsgH(Ref(to[self].n, "up", sx[self], 1))]
                /\ stack' = [stack EXCEPT ![self] = << [ procedure |->  "Deliver",
                                                         pc        |->  "MP2",
                                                         lg        |->  lg[self],
                                                         sx        |->  sx[self],
                                                         jx        |->  jx[self],
                                                         ch        |->  ch[self],
                                                         lv        |->  lv[self],
                                                         snap      |->  snap[self],
                                                         fr        |->  fr[self],
                                                         to        |->  to[self],
                                                         m         |->  m[self] ] >>
                                                     \o stack[self]]
                /\ to' = [to EXCEPT ![self] = Ref(Ups(to[self].n)[1], "src", 0, 0)]
             /\ lg' = [lg EXCEPT ![self] = FALSE]
             /\ sx' = [sx EXCEPT ![self] = 0]
             /\ jx' = [jx EXCEPT ![self] = 0]
             /\ ch' = [ch EXCEPT ![self] = ""]
             /\ lv' = [lv EXCEPT ![self] = 0]
             /\ snap' = [snap EXCEPT ![self] = <<>>]
             /\ pc' = [pc EXCEPT ![self] = "DStart"]
             /\ UNCHANGED << ci, st, nd, sk, pi, fi, tasks, now, obs, script, 
                             ntop, panicked, started, mon, done, ka, ca, gx, 
                             ex, nx, fx, bx, bc, tx, ta, tc, ft, act, sj, tk >>

MP2(self) == /\ pc[self] = "MP2"
             /\ pc' = [pc EXCEPT ![self] = "Ret"]
             /\ UNCHANGED << ci, st, nd, sk, pi, fi, tasks, now, obs, script, 
                             ntop, panicked, started, mon, done, stack, fr, to, 
                             m, lg, sx, jx, ch, lv, snap, ka, ca, gx, ex, nx, 
                             fx, bx, bc, tx, ta, tc, ft, act, sj, tk >>

MP3(self) == /\ pc[self] = "MP3"
             /\ /\ fr' = [fr EXCEPT ![self] = "S"]
                /\ m' = [m EXCEPT ![self] = MsgH(Ref(to[self].n, "tb", to[self].s, 0))]
                /\ stack' = [stack EXCEPT ![self] = << [ procedure |->  "Deliver",
                                                         pc        |->  "MP4",
                                                         lg        |->  lg[self],
                                                         sx        |->  sx[self],
                                                         jx        |->  jx[self],
                                                         ch        |->  ch[self],
                                                         lv        |->  lv[self],
                                                         snap      |->  snap[self],
                                                         fr        |->  fr[self],
                                                         to        |->  to[self],
                                                         m         |->  m[self] ] >>
                                                     \o stack[self]]
                /\ to' = [to EXCEPT ![self] = S(to[self]).sink]
             /\ lg' = [lg EXCEPT ![self] = FALSE]
             /\ sx' = [sx EXCEPT ![self] = 0]
             /\ jx' = [jx EXCEPT ![self] = 0]
             /\ ch' = [ch EXCEPT ![self] = ""]
             /\ lv' = [lv EXCEPT ![self] = 0]
             /\ snap' = [snap EXCEPT ![self] = <<>>]
             /\ pc' = [pc EXCEPT ![self] = "DStart"]
             /\ UNCHANGED << ci, st, nd, sk, pi, fi, tasks, now, obs, script, 
                             ntop, panicked, started, mon, done, ka, ca, gx, 
                             ex, nx, fx, bx, bc, tx, ta, tc, ft, act, sj, tk >>

MP4(self) == /\ pc[self] = "MP4"
             /\ pc' = [pc EXCEPT ![self] = "Ret"]
             /\ UNCHANGED << ci, st, nd, sk, pi, fi, tasks, now, obs, script, 
                             ntop, panicked, started, mon, done, stack, fr, to, 
                             m, lg, sx, jx, ch, lv, snap, ka, ca, gx, ex, nx, 
                             fx, bx, bc, tx, ta, tc, ft, act, sj, tk >>

MP5(self) == /\ pc[self] = "MP5"
             /\ /\ fr' = [fr EXCEPT ![self] = "S"]
                /\ m' = [m EXCEPT ![self] = MsgD(FnInt(Node(to[self].n).f, m[self].v))]
                /\ stack' = [stack EXCEPT ![self] = << [ procedure |->  "Deliver",
                                                         pc        |->  "MP6",
                                                         lg        |->  lg[self],
                                                         sx        |->  sx[self],
                                                         jx        |->  jx[self],
                                                         ch        |->  ch[self],
                                                         lv        |->  lv[self],
                                                         snap      |->  snap[self],
                                                         fr        |->  fr[self],
                                                         to        |->  to[self],
                                                         m         |->  m[self] ] >>
                                                     \o stack[self]]
                /\ to' = [to EXCEPT ![self] = S(to[self]).sink]
             /\ lg' = [lg EXCEPT ![self] = FALSE]
             /\ sx' = [sx EXCEPT ![self] = 0]
             /\ jx' = [jx EXCEPT ![self] = 0]
             /\ ch' = [ch EXCEPT ![self] = ""]
             /\ lv' = [lv EXCEPT ![self] = 0]
             /\ snap' = [snap EXCEPT ![self] = <<>>]
             /\ pc' = [pc EXCEPT ![self] = "DStart"]
             /\ UNCHANGED << ci, st, nd, sk, pi, fi, tasks, now, obs, script, 
                             ntop, panicked, started, mon, done, ka, ca, gx, 
                             ex, nx, fx, bx, bc, tx, ta, tc, ft, act, sj, tk >>

MP6(self) == /\ pc[self] = "MP6"
             /\ pc' = [pc EXCEPT ![self] = "Ret"]
             /\ UNCHANGED << ci, st, nd, sk, pi, fi, tasks, now, obs, script, 
                             ntop, panicked, started, mon, done, stack, fr, to, 
                             m, lg, sx, jx, ch, lv, snap, ka, ca, gx, ex, nx, 
                             fx, bx, bc, tx, ta, tc, ft, act, sj, tk >>

MP7(self) == /\ pc[self] = "MP7"
             /\ pc' = [pc EXCEPT ![self] = "Ret"]
             /\ UNCHANGED << ci, st, nd, sk, pi, fi, tasks, now, obs, script, 
                             ntop, panicked, started, mon, done, stack, fr, to, 
                             m, lg, sx, jx, ch, lv, snap, ka, ca, gx, ex, nx, 
                             fx, bx, bc, tx, ta, tc, ft, act, sj, tk >>

MP8(self) == /\ pc[self] = "MP8"
             /\ pc' = [pc EXCEPT ![self] = "Ret"]
             /\ UNCHANGED << ci, st, nd, sk, pi, fi, tasks, now, obs, script, 
                             ntop, panicked, started, mon, done, stack, fr, to, 
                             m, lg, sx, jx, ch, lv, snap, ka, ca, gx, ex, nx, 
                             fx, bx, bc, tx, ta, tc, ft, act, sj, tk >>

FI1(self) == /\ pc[self] = "FI1"
             /\ /\ fr' = [fr EXCEPT ![self] = "S"]
                /\ m' = [m EXCEPT ![self] = MsgH(Ref(to[self].n, "up", sx[self], 1))]
                /\ stack' = [stack EXCEPT ![self] = << [ procedure |->  "Deliver",
                                                         pc        |->  "FI2",
                                                         lg        |->  lg[self],
                                                         sx        |->  sx[self],
                                                         jx        |->  jx[self],
                                                         ch        |->  ch[self],
                                                         lv        |->  lv[self],
                                                         snap      |->  snap[self],
                                                         fr        |->  fr[self],
                                                         to        |->  to[self],
                                                         m         |->  m[self] ] >>
                                                     \o stack[self]]
                /\ to' = [to EXCEPT ![self] = Ref(Ups(to[self].n)[1], "src", 0, 0)]
             /\ lg' = [lg EXCEPT ![self] = FALSE]
             /\ sx' = [sx EXCEPT ![self] = 0]
             /\ jx' = [jx EXCEPT ![self] = 0]
             /\ ch' = [ch EXCEPT ![self] = ""]
             /\ lv' = [lv EXCEPT ![self] = 0]
             /\ snap' = [snap EXCEPT ![self] = <<>>]
             /\ pc' = [pc EXCEPT ![self] = "DStart"]
             /\ UNCHANGED << ci, st, nd, sk, pi, fi, tasks, now, obs, script, 
                             ntop, panicked, started, mon, done, ka, ca, gx, 
                             ex, nx, fx, bx, bc, tx, ta, tc, ft, act, sj, tk >>

FI2(self) == /\ pc[self] = "FI2"
             /\ pc' = [pc EXCEPT ![self] = "Ret"]
             /\ UNCHANGED << ci, st, nd, sk, pi, fi, tasks, now, obs, script, 
                             ntop, panicked, started, mon, done, stack, fr, to, 
                             m, lg, sx, jx, ch, lv, snap, ka, ca, gx, ex, nx, 
                             fx, bx, bc, tx, ta, tc, ft, act, sj, tk >>

FI3(self) == /\ pc[self] = "FI3"
             /\ /\ fr' = [fr EXCEPT ![self] = "S"]
                /\ m' = [m EXCEPT ![self] = MsgH(Ref(to[self].n, "tb", to[self].s, 0))]
                /\ stack' = [stack EXCEPT ![self] = << [ procedure |->  "Deliver",
                                                         pc        |->  "FI4",
                                                         lg        |->  lg[self],
                                                         sx        |->  sx[self],
                                                         jx        |->  jx[self],
                                                         ch        |->  ch[self],
                                                         lv        |->  lv[self],
                                                         snap      |->  snap[self],
                                                         fr        |->  fr[self],
                                                         to        |->  to[self],
                                                         m         |->  m[self] ] >>
                                                     \o stack[self]]
                /\ to' = [to EXCEPT ![self] = S(to[self]).sink]
             /\ lg' = [lg EXCEPT ![self] = FALSE]
             /\ sx' = [sx EXCEPT ![self] = 0]
             /\ jx' = [jx EXCEPT ![self] = 0]
             /\ ch' = [ch EXCEPT ![self] = ""]
             /\ lv' = [lv EXCEPT ![self] = 0]
             /\ snap' = [snap EXCEPT ![self] = <<>>]
             /\ pc' = [pc EXCEPT ![self] = "DStart"]
             /\ UNCHANGED << ci, st, nd, sk, pi, fi, tasks, now, obs, script, 
                             ntop, panicked, started, mon, done, ka, ca, gx, 
                             ex, nx, fx, bx, bc, tx, ta, tc, ft, act, sj, tk >>

FI4(self) == /\ pc[self] = "FI4"
             /\ pc' = [pc EXCEPT ![self] = "Ret"]
             /\ UNCHANGED << ci, st, nd, sk, pi, fi, tasks, now, obs, script, 
                             ntop, panicked, started, mon, done, stack, fr, to, 
                             m, lg, sx, jx, ch, lv, snap, ka, ca, gx, ex, nx, 
                             fx, bx, bc, tx, ta, tc, ft, act, sj, tk >>

FI5(self) == /\ pc[self] = "FI5"
             /\ IF PredInt(Node(to[self].n).p, m[self].v)
                   THEN /\ /\ fr' = [fr EXCEPT ![self] = "S"]
                           /\ m' = [m EXCEPT ![self] = m[self]]
                           /\ stack' = [stack EXCEPT ![self] = << [ procedure |->  "Deliver",
                                                                    pc        |->  "FI6",
                                                                    lg        |->  lg[self],
                                                                    sx        |->  sx[self],
                                                                    jx        |->  jx[self],
                                                                    ch        |->  ch[self],
                                                                    lv        |->  lv[self],
                                                                    snap      |->  snap[self],
                                                                    fr        |->  fr[self],
                                                                    to        |->  to[self],
                                                                    m         |->  m[self] ] >>
                                                                \o stack[self]]
                           /\ to' = [to EXCEPT ![self] = S(to[self]).sink]
                        /\ lg' = [lg EXCEPT ![self] = FALSE]
                        /\ sx' = [sx EXCEPT ![self] = 0]
                        /\ jx' = [jx EXCEPT ![self] = 0]
                        /\ ch' = [ch EXCEPT ![self] = ""]
                        /\ lv' = [lv EXCEPT ![self] = 0]
                        /\ snap' = [snap EXCEPT ![self] = <<>>]
                        /\ pc' = [pc EXCEPT ![self] = "DStart"]
                        /\ UNCHANGED << obs, panicked >>
                   ELSE /\ IF S(to[self]).utb = NoRef
                              THEN /\ obs' = LogO(obs \o [q \in 1..OpenCount(obs, 1, 0) |-> RetEv(ThOf(self))],
                                                  Ev("panic", ThOf(self), "", "", "", 0))
                                   /\ panicked' = TRUE
                                   /\ pc' = [pc EXCEPT ![self] = "Halt"]
                                   /\ UNCHANGED << stack, fr, to, m, lg, sx, 
                                                   jx, ch, lv, snap >>
                              ELSE /\ /\ fr' = [fr EXCEPT ![self] = "S"]
                                      /\ m' = [m EXCEPT ![self] = Msg("P")]
                                      /\ stack' = [stack EXCEPT ![self] = << [ procedure |->  "Deliver",
                                                                               pc        |->  "FI6",
                                                                               lg        |->  lg[self],
                                                                               sx        |->  sx[self],
                                                                               jx        |->  jx[self],
                                                                               ch        |->  ch[self],
                                                                               lv        |->  lv[self],
                                                                               snap      |->  snap[self],
                                                                               fr        |->  fr[self],
                                                                               to        |->  to[self],
                                                                               m         |->  m[self] ] >>
                                                                           \o stack[self]]
                                      /\ to' = [to EXCEPT ![self] = S(to[self]).utb]
                                   /\ lg' = [lg EXCEPT ![self] = FALSE]
                                   /\ sx' = [sx EXCEPT ![self] = 0]
                                   /\ jx' = [jx EXCEPT ![self] = 0]
                                   /\ ch' = [ch EXCEPT ![self] = ""]
                                   /\ lv' = [lv EXCEPT ![self] = 0]
                                   /\ snap' = [snap EXCEPT ![self] = <<>>]
                                   /\ pc' = [pc EXCEPT ![self] = "DStart"]
                                   /\ UNCHANGED << obs, panicked >>
             /\ UNCHANGED << ci, st, nd, sk, pi, fi, tasks, now, script, ntop, 
                             started, mon, done, ka, ca, gx, ex, nx, fx, bx, 
                             bc, tx, ta, tc, ft, act, sj, tk >>

FI6(self) == /\ pc[self] = "FI6"
             /\ pc' = [pc EXCEPT ![self] = "Ret"]
             /\ UNCHANGED << ci, st, nd, sk, pi, fi, tasks, now, obs, script, 
                             ntop, panicked, started, mon, done, stack, fr, to, 
                             m, lg, sx, jx, ch, lv, snap, ka, ca, gx, ex, nx, 
                             fx, bx, bc, tx, ta, tc, ft, act, sj, tk >>

FI7(self) == /\ pc[self] = "FI7"
             /\ pc' = [pc EXCEPT ![self] = "Ret"]
             /\ UNCHANGED << ci, st, nd, sk, pi, fi, tasks, now, obs, script, 
                             ntop, panicked, started, mon, done, stack, fr, to, 
                             m, lg, sx, jx, ch, lv, snap, ka, ca, gx, ex, nx, 
                             fx, bx, bc, tx, ta, tc, ft, act, sj, tk >>

FI8(self) == /\ pc[self] = "FI8"
             /\ pc' = [pc EXCEPT ![self] = "Ret"]
             /\ UNCHANGED << ci, st, nd, sk, pi, fi, tasks, now, obs, script, 
                             ntop, panicked, started, mon, done, stack, fr, to, 
                             m, lg, sx, jx, ch, lv, snap, ka, ca, gx, ex, nx, 
                             fx, bx, bc, tx, ta, tc, ft, act, sj, tk >>

SC1(self) == /\ pc[self] = "SC1"
             /\ /\ fr' = [fr EXCEPT ![self] = "S"]
                /\ m' = [m EXCEPT ![self] = MsgH(Ref(to[self].n, "up", sx[self], 1))]
                /\ stack' = [stack EXCEPT ![self] = << [ procedure |->  "Deliver",
                                                         pc        |->  "SC2",
                                                         lg        |->  lg[self],
                                                         sx        |->  sx[self],
                                                         jx        |->  jx[self],
                                                         ch        |->  ch[self],
                                                         lv        |->  lv[self],
                                                         snap      |->  snap[self],
                                                         fr        |->  fr[self],
                                                         to        |->  to[self],
                                                         m         |->  m[self] ] >>
                                                     \o stack[self]]
                /\ to' = [to EXCEPT ![self] = Ref(Ups(to[self].n)[1], "src", 0, 0)]
             /\ lg' = [lg EXCEPT ![self] = FALSE]
             /\ sx' = [sx EXCEPT ![self] = 0]
             /\ jx' = [jx EXCEPT ![self] = 0]
             /\ ch' = [ch EXCEPT ![self] = ""]
             /\ lv' = [lv EXCEPT ![self] = 0]
             /\ snap' = [snap EXCEPT ![self] = <<>>]
             /\ pc' = [pc EXCEPT ![self] = "DStart"]
             /\ UNCHANGED << ci, st, nd, sk, pi, fi, tasks, now, obs, script, 
                             ntop, panicked, started, mon, done, ka, ca, gx, 
                             ex, nx, fx, bx, bc, tx, ta, tc, ft, act, sj, tk >>

SC2(self) == /\ pc[self] = "SC2"
             /\ pc' = [pc EXCEPT ![self] = "Ret"]
             /\ UNCHANGED << ci, st, nd, sk, pi, fi, tasks, now, obs, script, 
                             ntop, panicked, started, mon, done, stack, fr, to, 
                             m, lg, sx, jx, ch, lv, snap, ka, ca, gx, ex, nx, 
                             fx, bx, bc, tx, ta, tc, ft, act, sj, tk >>

SC3(self) == /\ pc[self] = "SC3"
             /\ /\ fr' = [fr EXCEPT ![self] = "S"]
                /\ m' = [m EXCEPT ![self] = MsgH(Ref(to[self].n, "tb", to[self].s, 0))]
                /\ stack' = [stack EXCEPT ![self] = << [ procedure |->  "Deliver",
                                                         pc        |->  "SC4",
                                                         lg        |->  lg[self],
                                                         sx        |->  sx[self],
                                                         jx        |->  jx[self],
                                                         ch        |->  ch[self],
                                                         lv        |->  lv[self],
                                                         snap      |->  snap[self],
                                                         fr        |->  fr[self],
                                                         to        |->  to[self],
                                                         m         |->  m[self] ] >>
                                                     \o stack[self]]
                /\ to' = [to EXCEPT ![self] = S(to[self]).sink]
             /\ lg' = [lg EXCEPT ![self] = FALSE]
             /\ sx' = [sx EXCEPT ![self] = 0]
             /\ jx' = [jx EXCEPT ![self] = 0]
             /\ ch' = [ch EXCEPT ![self] = ""]
             /\ lv' = [lv EXCEPT ![self] = 0]
             /\ snap' = [snap EXCEPT ![self] = <<>>]
             /\ pc' = [pc EXCEPT ![self] = "DStart"]
             /\ UNCHANGED << ci, st, nd, sk, pi, fi, tasks, now, obs, script, 
                             ntop, panicked, started, mon, done, ka, ca, gx, 
                             ex, nx, fx, bx, bc, tx, ta, tc, ft, act, sj, tk >>

SC4(self) == /\ pc[self] = "SC4"
             /\ pc' = [pc EXCEPT ![self] = "Ret"]
             /\ UNCHANGED << ci, st, nd, sk, pi, fi, tasks, now, obs, script, 
                             ntop, panicked, started, mon, done, stack, fr, to, 
                             m, lg, sx, jx, ch, lv, snap, ka, ca, gx, ex, nx, 
                             fx, bx, bc, tx, ta, tc, ft, act, sj, tk >>

SC5(self) == /\ pc[self] = "SC5"
             /\ /\ fr' = [fr EXCEPT ![self] = "S"]
                /\ m' = [m EXCEPT ![self] = MsgD(S(to[self]).acc)]
                /\ stack' = [stack EXCEPT ![self] = << [ procedure |->  "Deliver",
                                                         pc        |->  "SC6",
                                                         lg        |->  lg[self],
                                                         sx        |->  sx[self],
                                                         jx        |->  jx[self],
                                                         ch        |->  ch[self],
                                                         lv        |->  lv[self],
                                                         snap      |->  snap[self],
                                                         fr        |->  fr[self],
                                                         to        |->  to[self],
                                                         m         |->  m[self] ] >>
                                                     \o stack[self]]
                /\ to' = [to EXCEPT ![self] = S(to[self]).sink]
             /\ lg' = [lg EXCEPT ![self] = FALSE]
             /\ sx' = [sx EXCEPT ![self] = 0]
             /\ jx' = [jx EXCEPT ![self] = 0]
             /\ ch' = [ch EXCEPT ![self] = ""]
             /\ lv' = [lv EXCEPT ![self] = 0]
             /\ snap' = [snap EXCEPT ![self] = <<>>]
             /\ pc' = [pc EXCEPT ![self] = "DStart"]
             /\ UNCHANGED << ci, st, nd, sk, pi, fi, tasks, now, obs, script, 
                             ntop, panicked, started, mon, done, ka, ca, gx, 
                             ex, nx, fx, bx, bc, tx, ta, tc, ft, act, sj, tk >>

SC6(self) == /\ pc[self] = "SC6"
             /\ pc' = [pc EXCEPT ![self] = "Ret"]
             /\ UNCHANGED << ci, st, nd, sk, pi, fi, tasks, now, obs, script, 
                             ntop, panicked, started, mon, done, stack, fr, to, 
                             m, lg, sx, jx, ch, lv, snap, ka, ca, gx, ex, nx, 
                             fx, bx, bc, tx, ta, tc, ft, act, sj, tk >>

SC7(self) == /\ pc[self] = "SC7"
             /\ pc' = [pc EXCEPT ![self] = "Ret"]
             /\ UNCHANGED << ci, st, nd, sk, pi, fi, tasks, now, obs, script, 
                             ntop, panicked, started, mon, done, stack, fr, to, 
                             m, lg, sx, jx, ch, lv, snap, ka, ca, gx, ex, nx, 
                             fx, bx, bc, tx, ta, tc, ft, act, sj, tk >>

SC8(self) == /\ pc[self] = "SC8"
             /\ pc' = [pc EXCEPT ![self] = "Ret"]
             /\ UNCHANGED << ci, st, nd, sk, pi, fi, tasks, now, obs, script, 
                             ntop, panicked, started, mon, done, stack, fr, to, 
                             m, lg, sx, jx, ch, lv, snap, ka, ca, gx, ex, nx, 
                             fx, bx, bc, tx, ta, tc, ft, act, sj, tk >>

TK1(self) == /\ pc[self] = "TK1"
             /\ /\ fr' = [fr EXCEPT ![self] = "S"]
                /\ m' = [m EXCEPT ![self] = MsgH(Ref(to[self].n, "up", sx[self], 1))]
                /\ stack' = [stack EXCEPT ![self] = << [ procedure |->  "Deliver",
                                                         pc        |->  "TK2",
                                                         lg        |->  lg[self],
                                                         sx        |->  sx[self],
                                                         jx        |->  jx[self],
                                                         ch        |->  ch[self],
                                                         lv        |->  lv[self],
                                                         snap      |->  snap[self],
                                                         fr        |->  fr[self],
                                                         to        |->  to[self],
                                                         m         |->  m[self] ] >>
                                                     \o stack[self]]
                /\ to' = [to EXCEPT ![self] = Ref(Ups(to[self].n)[1], "src", 0, 0)]
             /\ lg' = [lg EXCEPT ![self] = FALSE]
             /\ sx' = [sx EXCEPT ![self] = 0]
             /\ jx' = [jx EXCEPT ![self] = 0]
             /\ ch' = [ch EXCEPT ![self] = ""]
             /\ lv' = [lv EXCEPT ![self] = 0]
             /\ snap' = [snap EXCEPT ![self] = <<>>]
             /\ pc' = [pc EXCEPT ![self] = "DStart"]
             /\ UNCHANGED << ci, st, nd, sk, pi, fi, tasks, now, obs, script, 
                             ntop, panicked, started, mon, done, ka, ca, gx, 
                             ex, nx, fx, bx, bc, tx, ta, tc, ft, act, sj, tk >>

TK2(self) == /\ pc[self] = "TK2"
             /\ pc' = [pc EXCEPT ![self] = "Ret"]
             /\ UNCHANGED << ci, st, nd, sk, pi, fi, tasks, now, obs, script, 
                             ntop, panicked, started, mon, done, stack, fr, to, 
                             m, lg, sx, jx, ch, lv, snap, ka, ca, gx, ex, nx, 
                             fx, bx, bc, tx, ta, tc, ft, act, sj, tk >>

TK3(self) == /\ pc[self] = "TK3"
             /\ /\ fr' = [fr EXCEPT ![self] = "S"]
                /\ m' = [m EXCEPT ![self] = MsgH(Ref(to[self].n, "tb", to[self].s, 0))]
                /\ stack' = [stack EXCEPT ![self] = << [ procedure |->  "Deliver",
                                                         pc        |->  "TK4",
                                                         lg        |->  lg[self],
                                                         sx        |->  sx[self],
                                                         jx        |->  jx[self],
                                                         ch        |->  ch[self],
                                                         lv        |->  lv[self],
                                                         snap      |->  snap[self],
                                                         fr        |->  fr[self],
                                                         to        |->  to[self],
                                                         m         |->  m[self] ] >>
                                                     \o stack[self]]
                /\ to' = [to EXCEPT ![self] = S(to[self]).sink]
             /\ lg' = [lg EXCEPT ![self] = FALSE]
             /\ sx' = [sx EXCEPT ![self] = 0]
             /\ jx' = [jx EXCEPT ![self] = 0]
             /\ ch' = [ch EXCEPT ![self] = ""]
             /\ lv' = [lv EXCEPT ![self] = 0]
             /\ snap' = [snap EXCEPT ![self] = <<>>]
             /\ pc' = [pc EXCEPT ![self] = "DStart"]
             /\ UNCHANGED << ci, st, nd, sk, pi, fi, tasks, now, obs, script, 
                             ntop, panicked, started, mon, done, ka, ca, gx, 
                             ex, nx, fx, bx, bc, tx, ta, tc, ft, act, sj, tk >>

TK4(self) == /\ pc[self] = "TK4"
             /\ pc' = [pc EXCEPT ![self] = "Ret"]
             /\ UNCHANGED << ci, st, nd, sk, pi, fi, tasks, now, obs, script, 
                             ntop, panicked, started, mon, done, stack, fr, to, 
                             m, lg, sx, jx, ch, lv, snap, ka, ca, gx, ex, nx, 
                             fx, bx, bc, tx, ta, tc, ft, act, sj, tk >>

tk_taken_fu(self) == /\ pc[self] = "tk_taken_fu"
                     /\ IF S(to[self]).taken < Node(to[self].n).n
                           THEN /\ lv' = [lv EXCEPT ![self] = S(to[self]).taken + 1]
                                /\ st' = [st EXCEPT ![to[self].n][to[self].s].taken = S(to[self]).taken + 1]
                                /\ pc' = [pc EXCEPT ![self] = "tk_data"]
                           ELSE /\ pc' = [pc EXCEPT ![self] = "TK5"]
                                /\ UNCHANGED << st, lv >>
                     /\ UNCHANGED << ci, nd, sk, pi, fi, tasks, now, obs, 
                                     script, ntop, panicked, started, mon, 
                                     done, stack, fr, to, m, lg, sx, jx, ch, 
                                     snap, ka, ca, gx, ex, nx, fx, bx, bc, tx, 
                                     ta, tc, ft, act, sj, tk >>

tk_data(self) == /\ pc[self] = "tk_data"
                 /\ /\ fr' = [fr EXCEPT ![self] = "S"]
                    /\ m' = [m EXCEPT ![self] = m[self]]
                    /\ stack' = [stack EXCEPT ![self] = << [ procedure |->  "Deliver",
                                                             pc        |->  "tk_max",
                                                             lg        |->  lg[self],
                                                             sx        |->  sx[self],
                                                             jx        |->  jx[self],
                                                             ch        |->  ch[self],
                                                             lv        |->  lv[self],
                                                             snap      |->  snap[self],
                                                             fr        |->  fr[self],
                                                             to        |->  to[self],
                                                             m         |->  m[self] ] >>
                                                         \o stack[self]]
                    /\ to' = [to EXCEPT ![self] = S(to[self]).sink]
                 /\ lg' = [lg EXCEPT ![self] = FALSE]
                 /\ sx' = [sx EXCEPT ![self] = 0]
                 /\ jx' = [jx EXCEPT ![self] = 0]
                 /\ ch' = [ch EXCEPT ![self] = ""]
                 /\ lv' = [lv EXCEPT ![self] = 0]
                 /\ snap' = [snap EXCEPT ![self] = <<>>]
                 /\ pc' = [pc EXCEPT ![self] = "DStart"]
                 /\ UNCHANGED << ci, st, nd, sk, pi, fi, tasks, now, obs, 
                                 script, ntop, panicked, started, mon, done, 
                                 ka, ca, gx, ex, nx, fx, bx, bc, tx, ta, tc, 
                                 ft, act, sj, tk >>

tk_max(self) == /\ pc[self] = "tk_max"
                /\ IF lv[self] = Node(to[self].n).n
                      THEN /\ pc' = [pc EXCEPT ![self] = "tk_end_ld"]
                      ELSE /\ pc' = [pc EXCEPT ![self] = "TK5"]
                /\ UNCHANGED << ci, st, nd, sk, pi, fi, tasks, now, obs, 
                                script, ntop, panicked, started, mon, done, 
                                stack, fr, to, m, lg, sx, jx, ch, lv, snap, ka, 
                                ca, gx, ex, nx, fx, bx, bc, tx, ta, tc, ft, 
                                act, sj, tk >>

tk_end_ld(self) == /\ pc[self] = "tk_end_ld"
                   /\ IF ~S(to[self]).end
                         THEN /\ pc' = [pc EXCEPT ![self] = "tk_end_st"]
                         ELSE /\ pc' = [pc EXCEPT ![self] = "TK5"]
                   /\ UNCHANGED << ci, st, nd, sk, pi, fi, tasks, now, obs, 
                                   script, ntop, panicked, started, mon, done, 
                                   stack, fr, to, m, lg, sx, jx, ch, lv, snap, 
                                   ka, ca, gx, ex, nx, fx, bx, bc, tx, ta, tc, 
                                   ft, act, sj, tk >>

tk_end_st(self) == /\ pc[self] = "tk_end_st"
                   /\ st' = [st EXCEPT ![to[self].n][to[self].s].end = TRUE]
                   /\ pc' = [pc EXCEPT ![self] = "tk_up_ld"]
                   /\ UNCHANGED << ci, nd, sk, pi, fi, tasks, now, obs, script, 
                                   ntop, panicked, started, mon, done, stack, 
                                   fr, to, m, lg, sx, jx, ch, lv, snap, ka, ca, 
                                   gx, ex, nx, fx, bx, bc, tx, ta, tc, ft, act, 
                                   sj, tk >>

tk_up_ld(self) == /\ pc[self] = "tk_up_ld"
                  /\ IF S(to[self]).utb = NoRef
                        THEN /\ obs' = LogO(obs \o [q \in 1..OpenCount(obs, 1, 0) |-> RetEv(ThOf(self))],
                                            Ev("panic", ThOf(self), "", "", "", 0))
                             /\ panicked' = TRUE
                             /\ pc' = [pc EXCEPT ![self] = "Halt"]
                        ELSE /\ pc' = [pc EXCEPT ![self] = "tk_up_term"]
                             /\ UNCHANGED << obs, panicked >>
                  /\ UNCHANGED << ci, st, nd, sk, pi, fi, tasks, now, script, 
                                  ntop, started, mon, done, stack, fr, to, m, 
                                  lg, sx, jx, ch, lv, snap, ka, ca, gx, ex, nx, 
                                  fx, bx, bc, tx, ta, tc, ft, act, sj, tk >>

tk_up_term(self) == /\ pc[self] = "tk_up_term"
                    /\ /\ fr' = [fr EXCEPT ![self] = "S"]
                       /\ m' = [m EXCEPT ![self] = Msg("T")]
                       /\ stack' = [stack EXCEPT ![self] = << [ procedure |->  "Deliver",
                                                                pc        |->  "tk_sink_term",
                                                                lg        |->  lg[self],
                                                                sx        |->  sx[self],
                                                                jx        |->  jx[self],
                                                                ch        |->  ch[self],
                                                                lv        |->  lv[self],
                                                                snap      |->  snap[self],
                                                                fr        |->  fr[self],
                                                                to        |->  to[self],
                                                                m         |->  m[self] ] >>
                                                            \o stack[self]]
                       /\ to' = [to EXCEPT ![self] = S(to[self]).utb]
                    /\ lg' = [lg EXCEPT ![self] = FALSE]
                    /\ sx' = [sx EXCEPT ![self] = 0]
                    /\ jx' = [jx EXCEPT ![self] = 0]
                    /\ ch' = [ch EXCEPT ![self] = ""]
                    /\ lv' = [lv EXCEPT ![self] = 0]
                    /\ snap' = [snap EXCEPT ![self] = <<>>]
                    /\ pc' = [pc EXCEPT ![self] = "DStart"]
                    /\ UNCHANGED << ci, st, nd, sk, pi, fi, tasks, now, obs, 
                                    script, ntop, panicked, started, mon, done, 
                                    ka, ca, gx, ex, nx, fx, bx, bc, tx, ta, tc, 
                                    ft, act, sj, tk >>

tk_sink_term(self) == /\ pc[self] = "tk_sink_term"
                      /\ /\ fr' = [fr EXCEPT ![self] = "S"]
                         /\ m' = [m EXCEPT ![self] = Msg("T")]
                         /\ stack' = [stack EXCEPT ![self] = << [ procedure |->  "Deliver",
                                                                  pc        |->  "TK5",
                                                                  lg        |->  lg[self],
                                                                  sx        |->  sx[self],
                                                                  jx        |->  jx[self],
                                                                  ch        |->  ch[self],
                                                                  lv        |->  lv[self],
                                                                  snap      |->  snap[self],
                                                                  fr        |->  fr[self],
                                                                  to        |->  to[self],
                                                                  m         |->  m[self] ] >>
                                                              \o stack[self]]
                         /\ to' = [to EXCEPT ![self] = S(to[self]).sink]
                      /\ lg' = [lg EXCEPT ![self] = FALSE]
                      /\ sx' = [sx EXCEPT ![self] = 0]
                      /\ jx' = [jx EXCEPT ![self] = 0]
                      /\ ch' = [ch EXCEPT ![self] = ""]
                      /\ lv' = [lv EXCEPT ![self] = 0]
                      /\ snap' = [snap EXCEPT ![self] = <<>>]
                      /\ pc' = [pc EXCEPT ![self] = "DStart"]
                      /\ UNCHANGED << ci, st, nd, sk, pi, fi, tasks, now, obs, 
                                      script, ntop, panicked, started, mon, 
                                      done, ka, ca, gx, ex, nx, fx, bx, bc, tx, 
                                      ta, tc, ft, act, sj, tk >>

TK5(self) == /\ pc[self] = "TK5"
             /\ pc' = [pc EXCEPT ![self] = "Ret"]
             /\ UNCHANGED << ci, st, nd, sk, pi, fi, tasks, now, obs, script, 
                             ntop, panicked, started, mon, done, stack, fr, to, 
                             m, lg, sx, jx, ch, lv, snap, ka, ca, gx, ex, nx, 
                             fx, bx, bc, tx, ta, tc, ft, act, sj, tk >>

tk_src_end_st(self) == /\ pc[self] = "tk_src_end_st"
                       /\ st' = [st EXCEPT ![to[self].n][to[self].s].end = TRUE]
                       /\ pc' = [pc EXCEPT ![self] = "TK6a"]
                       /\ UNCHANGED << ci, nd, sk, pi, fi, tasks, now, obs, 
                                       script, ntop, panicked, started, mon, 
                                       done, stack, fr, to, m, lg, sx, jx, ch, 
                                       lv, snap, ka, ca, gx, ex, nx, fx, bx, 
                                       bc, tx, ta, tc, ft, act, sj, tk >>

TK6a(self) == /\ pc[self] = "TK6a"
              /\ /\ fr' = [fr EXCEPT ![self] = "S"]
                 /\ m' = [m EXCEPT ![self] = m[self]]
                 /\ stack' = [stack EXCEPT ![self] = << [ procedure |->  "Deliver",
                                                          pc        |->  "TK6",
                                                          lg        |->  lg[self],
                                                          sx        |->  sx[self],
                                                          jx        |->  jx[self],
                                                          ch        |->  ch[self],
                                                          lv        |->  lv[self],
                                                          snap      |->  snap[self],
                                                          fr        |->  fr[self],
                                                          to        |->  to[self],
                                                          m         |->  m[self] ] >>
                                                      \o stack[self]]
                 /\ to' = [to EXCEPT ![self] = S(to[self]).sink]
              /\ lg' = [lg EXCEPT ![self] = FALSE]
              /\ sx' = [sx EXCEPT ![self] = 0]
              /\ jx' = [jx EXCEPT ![self] = 0]
              /\ ch' = [ch EXCEPT ![self] = ""]
              /\ lv' = [lv EXCEPT ![self] = 0]
              /\ snap' = [snap EXCEPT ![self] = <<>>]
              /\ pc' = [pc EXCEPT ![self] = "DStart"]
              /\ UNCHANGED << ci, st, nd, sk, pi, fi, tasks, now, obs, script, 
                              ntop, panicked, started, mon, done, ka, ca, gx, 
                              ex, nx, fx, bx, bc, tx, ta, tc, ft, act, sj, tk >>

TK6(self) == /\ pc[self] = "TK6"
             /\ pc' = [pc EXCEPT ![self] = "Ret"]
             /\ UNCHANGED << ci, st, nd, sk, pi, fi, tasks, now, obs, script, 
                             ntop, panicked, started, mon, done, stack, fr, to, 
                             m, lg, sx, jx, ch, lv, snap, ka, ca, gx, ex, nx, 
                             fx, bx, bc, tx, ta, tc, ft, act, sj, tk >>

TK7(self) == /\ pc[self] = "TK7"
             /\ pc' = [pc EXCEPT ![self] = "Ret"]
             /\ UNCHANGED << ci, st, nd, sk, pi, fi, tasks, now, obs, script, 
                             ntop, panicked, started, mon, done, stack, fr, to, 
                             m, lg, sx, jx, ch, lv, snap, ka, ca, gx, ex, nx, 
                             fx, bx, bc, tx, ta, tc, ft, act, sj, tk >>

TK8(self) == /\ pc[self] = "TK8"
             /\ IF S(to[self]).utb = NoRef
                   THEN /\ obs' = LogO(obs \o [q \in 1..OpenCount(obs, 1, 0) |-> RetEv(ThOf(self))],
                                       Ev("panic", ThOf(self), "", "", "", 0))
                        /\ panicked' = TRUE
                        /\ pc' = [pc EXCEPT ![self] = "Halt"]
                        /\ UNCHANGED << stack, fr, to, m, lg, sx, jx, ch, lv, 
                                        snap >>
                   ELSE /\ /\ fr' = [fr EXCEPT ![self] = "S"]
                           /\ m' = [m EXCEPT ![self] = m[self]]
                           /\ stack' = [stack EXCEPT ![self] = << [ procedure |->  "Deliver",
                                                                    pc        |->  "TK9",
                                                                    lg        |->  lg[self],
                                                                    sx        |->  sx[self],
                                                                    jx        |->  jx[self],
                                                                    ch        |->  ch[self],
                                                                    lv        |->  lv[self],
                                                                    snap      |->  snap[self],
                                                                    fr        |->  fr[self],
                                                                    to        |->  to[self],
                                                                    m         |->  m[self] ] >>
                                                                \o stack[self]]
                           /\ to' = [to EXCEPT ![self] = S(to[self]).utb]
                        /\ lg' = [lg EXCEPT ![self] = FALSE]
                        /\ sx' = [sx EXCEPT ![self] = 0]
                        /\ jx' = [jx EXCEPT ![self] = 0]
                        /\ ch' = [ch EXCEPT ![self] = ""]
                        /\ lv' = [lv EXCEPT ![self] = 0]
                        /\ snap' = [snap EXCEPT ![self] = <<>>]
                        /\ pc' = [pc EXCEPT ![self] = "DStart"]
                        /\ UNCHANGED << obs, panicked >>
             /\ UNCHANGED << ci, st, nd, sk, pi, fi, tasks, now, script, ntop, 
                             started, mon, done, ka, ca, gx, ex, nx, fx, bx, 
                             bc, tx, ta, tc, ft, act, sj, tk >>

TK9(self) == /\ pc[self] = "TK9"
             /\ pc' = [pc EXCEPT ![self] = "Ret"]
             /\ UNCHANGED << ci, st, nd, sk, pi, fi, tasks, now, obs, script, 
                             ntop, panicked, started, mon, done, stack, fr, to, 
                             m, lg, sx, jx, ch, lv, snap, ka, ca, gx, ex, nx, 
                             fx, bx, bc, tx, ta, tc, ft, act, sj, tk >>

SK1(self) == /\ pc[self] = "SK1"
             /\ /\ fr' = [fr EXCEPT ![self] = "S"]
                /\ m' = [m EXCEPT ![self] = MsgH(Ref(to[self].n, "up", sx[self], 1))]
                /\ stack' = [stack EXCEPT ![self] = << [ procedure |->  "Deliver",
                                                         pc        |->  "SK2",
                                                         lg        |->  lg[self],
                                                         sx        |->  sx[self],
                                                         jx        |->  jx[self],
                                                         ch        |->  ch[self],
                                                         lv        |->  lv[self],
                                                         snap      |->  snap[self],
                                                         fr        |->  fr[self],
                                                         to        |->  to[self],
                                                         m         |->  m[self] ] >>
                                                     \o stack[self]]
                /\ to' = [to EXCEPT ![self] = Ref(Ups(to[self].n)[1], "src", 0, 0)]
             /\ lg' = [lg EXCEPT ![self] = FALSE]
             /\ sx' = [sx EXCEPT ![self] = 0]
             /\ jx' = [jx EXCEPT ![self] = 0]
             /\ ch' = [ch EXCEPT ![self] = ""]
             /\ lv' = [lv EXCEPT ![self] = 0]
             /\ snap' = [snap EXCEPT ![self] = <<>>]
             /\ pc' = [pc EXCEPT ![self] = "DStart"]
             /\ UNCHANGED << ci, st, nd, sk, pi, fi, tasks, now, obs, script, 
                             ntop, panicked, started, mon, done, ka, ca, gx, 
                             ex, nx, fx, bx, bc, tx, ta, tc, ft, act, sj, tk >>

SK2(self) == /\ pc[self] = "SK2"
             /\ pc' = [pc EXCEPT ![self] = "Ret"]
             /\ UNCHANGED << ci, st, nd, sk, pi, fi, tasks, now, obs, script, 
                             ntop, panicked, started, mon, done, stack, fr, to, 
                             m, lg, sx, jx, ch, lv, snap, ka, ca, gx, ex, nx, 
                             fx, bx, bc, tx, ta, tc, ft, act, sj, tk >>

SK3(self) == /\ pc[self] = "SK3"
             /\ /\ fr' = [fr EXCEPT ![self] = "S"]
                /\ m' = [m EXCEPT ![self] = MsgH(Ref(to[self].n, "tb", to[self].s, 0))]
                /\ stack' = [stack EXCEPT ![self] = << [ procedure |->  "Deliver",
                                                         pc        |->  "SK4",
                                                         lg        |->  lg[self],
                                                         sx        |->  sx[self],
                                                         jx        |->  jx[self],
                                                         ch        |->  ch[self],
                                                         lv        |->  lv[self],
                                                         snap      |->  snap[self],
                                                         fr        |->  fr[self],
                                                         to        |->  to[self],
                                                         m         |->  m[self] ] >>
                                                     \o stack[self]]
                /\ to' = [to EXCEPT ![self] = S(to[self]).sink]
             /\ lg' = [lg EXCEPT ![self] = FALSE]
             /\ sx' = [sx EXCEPT ![self] = 0]
             /\ jx' = [jx EXCEPT ![self] = 0]
             /\ ch' = [ch EXCEPT ![self] = ""]
             /\ lv' = [lv EXCEPT ![self] = 0]
             /\ snap' = [snap EXCEPT ![self] = <<>>]
             /\ pc' = [pc EXCEPT ![self] = "DStart"]
             /\ UNCHANGED << ci, st, nd, sk, pi, fi, tasks, now, obs, script, 
                             ntop, panicked, started, mon, done, ka, ca, gx, 
                             ex, nx, fx, bx, bc, tx, ta, tc, ft, act, sj, tk >>

SK4(self) == /\ pc[self] = "SK4"
             /\ pc' = [pc EXCEPT ![self] = "Ret"]
             /\ UNCHANGED << ci, st, nd, sk, pi, fi, tasks, now, obs, script, 
                             ntop, panicked, started, mon, done, stack, fr, to, 
                             m, lg, sx, jx, ch, lv, snap, ka, ca, gx, ex, nx, 
                             fx, bx, bc, tx, ta, tc, ft, act, sj, tk >>

SK6(self) == /\ pc[self] = "SK6"
             /\ pc' = [pc EXCEPT ![self] = "Ret"]
             /\ UNCHANGED << ci, st, nd, sk, pi, fi, tasks, now, obs, script, 
                             ntop, panicked, started, mon, done, stack, fr, to, 
                             m, lg, sx, jx, ch, lv, snap, ka, ca, gx, ex, nx, 
                             fx, bx, bc, tx, ta, tc, ft, act, sj, tk >>

SK5(self) == /\ pc[self] = "SK5"
             /\ IF S(to[self]).utb = NoRef
                   THEN /\ obs' = LogO(obs \o [q \in 1..OpenCount(obs, 1, 0) |-> RetEv(ThOf(self))],
                                       Ev("panic", ThOf(self), "", "", "", 0))
                        /\ panicked' = TRUE
                        /\ pc' = [pc EXCEPT ![self] = "Halt"]
                        /\ UNCHANGED << stack, fr, to, m, lg, sx, jx, ch, lv, 
                                        snap >>
                   ELSE /\ /\ fr' = [fr EXCEPT ![self] = "S"]
                           /\ m' = [m EXCEPT ![self] = Msg("P")]
                           /\ stack' = [stack EXCEPT ![self] = << [ procedure |->  "Deliver",
                                                                    pc        |->  "SK6",
                                                                    lg        |->  lg[self],
                                                                    sx        |->  sx[self],
                                                                    jx        |->  jx[self],
                                                                    ch        |->  ch[self],
                                                                    lv        |->  lv[self],
                                                                    snap      |->  snap[self],
                                                                    fr        |->  fr[self],
                                                                    to        |->  to[self],
                                                                    m         |->  m[self] ] >>
                                                                \o stack[self]]
                           /\ to' = [to EXCEPT ![self] = S(to[self]).utb]
                        /\ lg' = [lg EXCEPT ![self] = FALSE]
                        /\ sx' = [sx EXCEPT ![self] = 0]
                        /\ jx' = [jx EXCEPT ![self] = 0]
                        /\ ch' = [ch EXCEPT ![self] = ""]
                        /\ lv' = [lv EXCEPT ![self] = 0]
                        /\ snap' = [snap EXCEPT ![self] = <<>>]
                        /\ pc' = [pc EXCEPT ![self] = "DStart"]
                        /\ UNCHANGED << obs, panicked >>
             /\ UNCHANGED << ci, st, nd, sk, pi, fi, tasks, now, script, ntop, 
                             started, mon, done, ka, ca, gx, ex, nx, fx, bx, 
                             bc, tx, ta, tc, ft, act, sj, tk >>

SK7(self) == /\ pc[self] = "SK7"
             /\ pc' = [pc EXCEPT ![self] = "Ret"]
             /\ UNCHANGED << ci, st, nd, sk, pi, fi, tasks, now, obs, script, 
                             ntop, panicked, started, mon, done, stack, fr, to, 
                             m, lg, sx, jx, ch, lv, snap, ka, ca, gx, ex, nx, 
                             fx, bx, bc, tx, ta, tc, ft, act, sj, tk >>

SK8(self) == /\ pc[self] = "SK8"
             /\ pc' = [pc EXCEPT ![self] = "Ret"]
             /\ UNCHANGED << ci, st, nd, sk, pi, fi, tasks, now, obs, script, 
                             ntop, panicked, started, mon, done, stack, fr, to, 
                             m, lg, sx, jx, ch, lv, snap, ka, ca, gx, ex, nx, 
                             fx, bx, bc, tx, ta, tc, ft, act, sj, tk >>

MG1(self) == /\ pc[self] = "MG1"
             /\ IF jx[self] <= Len(Ups(to[self].n)) /\ ~st[to[self].n][sx[self]].ended
                   THEN /\ /\ fr' = [fr EXCEPT ![self] = "S"]
                           /\ m' = [m EXCEPT ![self] = MsgH(Ref(to[self].n, "up", sx[self], jx[self]))]
                           /\ stack' = [stack EXCEPT ![self] = << [ procedure |->  "Deliver",
                                                                    pc        |->  "MG2",
                                                                    lg        |->  lg[self],
                                                                    sx        |->  sx[self],
                                                                    jx        |->  jx[self],
                                                                    ch        |->  ch[self],
                                                                    lv        |->  lv[self],
                                                                    snap      |->  snap[self],
                                                                    fr        |->  fr[self],
                                                                    to        |->  to[self],
                                                                    m         |->  m[self] ] >>
                                                                \o stack[self]]
                           /\ to' = [to EXCEPT ![self] = Ref(Ups(to[self].n)[jx[self]], "src", 0, 0)]
                        /\ lg' = [lg EXCEPT ![self] = FALSE]
                        /\ sx' = [sx EXCEPT ![self] = 0]
                        /\ jx' = [jx EXCEPT ![self] = 0]
                        /\ ch' = [ch EXCEPT ![self] = ""]
                        /\ lv' = [lv EXCEPT ![self] = 0]
                        /\ snap' = [snap EXCEPT ![self] = <<>>]
                        /\ pc' = [pc EXCEPT ![self] = "DStart"]
                   ELSE /\ pc' = [pc EXCEPT ![self] = "Ret"]
                        /\ UNCHANGED << stack, fr, to, m, lg, sx, jx, ch, lv, 
                                        snap >>
             /\ UNCHANGED << ci, st, nd, sk, pi, fi, tasks, now, obs, script, 
                             ntop, panicked, started, mon, done, ka, ca, gx, 
                             ex, nx, fx, bx, bc, tx, ta, tc, ft, act, sj, tk >>

MG2(self) == /\ pc[self] = "MG2"
             /\ jx' = [jx EXCEPT ![self] = jx[self] + 1]
             /\ pc' = [pc EXCEPT ![self] = "MG1"]
             /\ UNCHANGED << ci, st, nd, sk, pi, fi, tasks, now, obs, script, 
                             ntop, panicked, started, mon, done, stack, fr, to, 
                             m, lg, sx, ch, lv, snap, ka, ca, gx, ex, nx, fx, 
                             bx, bc, tx, ta, tc, ft, act, sj, tk >>

MG8a(self) == /\ pc[self] = "MG8a"
              /\ jx' = [jx EXCEPT ![self] = 1]
              /\ pc' = [pc EXCEPT ![self] = "MG8"]
              /\ UNCHANGED << ci, st, nd, sk, pi, fi, tasks, now, obs, script, 
                              ntop, panicked, started, mon, done, stack, fr, 
                              to, m, lg, sx, ch, lv, snap, ka, ca, gx, ex, nx, 
                              fx, bx, bc, tx, ta, tc, ft, act, sj, tk >>

MG8(self) == /\ pc[self] = "MG8"
             /\ IF jx[self] <= Len(Ups(to[self].n))
                   THEN /\ IF S(to[self]).tbs[jx[self]] # NoRef
                              THEN /\ IF m[self].t \in {"H", "D"}
                                         THEN /\ obs' = LogO(obs \o [q \in 1..OpenCount(obs, 1, 0) |-> RetEv(ThOf(self))],
                                                             Ev("panic", ThOf(self), "", "", "", 0))
                                              /\ panicked' = TRUE
                                              /\ pc' = [pc EXCEPT ![self] = "Halt"]
                                              /\ UNCHANGED << stack, fr, to, m, 
                                                              lg, sx, jx, ch, 
                                                              lv, snap >>
                                         ELSE /\ IF m[self].t = "P"
                                                    THEN /\ snap' = [snap EXCEPT ![self] = <<S(to[self]).tbs[jx[self]]>>]
                                                         /\ pc' = [pc EXCEPT ![self] = "mg_pl_ended_ld"]
                                                         /\ UNCHANGED << stack, 
                                                                         fr, 
                                                                         to, m, 
                                                                         lg, 
                                                                         sx, 
                                                                         jx, 
                                                                         ch, 
                                                                         lv >>
                                                    ELSE /\ /\ fr' = [fr EXCEPT ![self] = "S"]
                                                            /\ m' = [m EXCEPT ![self] = m[self]]
                                                            /\ stack' = [stack EXCEPT ![self] = << [ procedure |->  "Deliver",
                                                                                                     pc        |->  "MG9",
                                                                                                     lg        |->  lg[self],
                                                                                                     sx        |->  sx[self],
                                                                                                     jx        |->  jx[self],
                                                                                                     ch        |->  ch[self],
                                                                                                     lv        |->  lv[self],
                                                                                                     snap      |->  snap[self],
                                                                                                     fr        |->  fr[self],
                                                                                                     to        |->  to[self],
                                                                                                     m         |->  m[self] ] >>
                                                                                                 \o stack[self]]
                                                            /\ to' = [to EXCEPT ![self] = S(to[self]).tbs[jx[self]]]
                                                         /\ lg' = [lg EXCEPT ![self] = FALSE]
                                                         /\ sx' = [sx EXCEPT ![self] = 0]
                                                         /\ jx' = [jx EXCEPT ![self] = 0]
                                                         /\ ch' = [ch EXCEPT ![self] = ""]
                                                         /\ lv' = [lv EXCEPT ![self] = 0]
                                                         /\ snap' = [snap EXCEPT ![self] = <<>>]
                                                         /\ pc' = [pc EXCEPT ![self] = "DStart"]
                                              /\ UNCHANGED << obs, panicked >>
                              ELSE /\ pc' = [pc EXCEPT ![self] = "MG9"]
                                   /\ UNCHANGED << obs, panicked, stack, fr, 
                                                   to, m, lg, sx, jx, ch, lv, 
                                                   snap >>
                   ELSE /\ pc' = [pc EXCEPT ![self] = "Ret"]
                        /\ UNCHANGED << obs, panicked, stack, fr, to, m, lg, 
                                        sx, jx, ch, lv, snap >>
             /\ UNCHANGED << ci, st, nd, sk, pi, fi, tasks, now, script, ntop, 
                             started, mon, done, ka, ca, gx, ex, nx, fx, bx, 
                             bc, tx, ta, tc, ft, act, sj, tk >>

MG9(self) == /\ pc[self] = "MG9"
             /\ jx' = [jx EXCEPT ![self] = jx[self] + 1]
             /\ pc' = [pc EXCEPT ![self] = "MG8"]
             /\ UNCHANGED << ci, st, nd, sk, pi, fi, tasks, now, obs, script, 
                             ntop, panicked, started, mon, done, stack, fr, to, 
                             m, lg, sx, ch, lv, snap, ka, ca, gx, ex, nx, fx, 
                             bx, bc, tx, ta, tc, ft, act, sj, tk >>

mg_pl_ended_ld(self) == /\ pc[self] = "mg_pl_ended_ld"
                        /\ IF S(to[self]).ended
                              THEN /\ pc' = [pc EXCEPT ![self] = "Ret"]
                                   /\ UNCHANGED << stack, fr, to, m, lg, sx, 
                                                   jx, ch, lv, snap >>
                              ELSE /\ /\ fr' = [fr EXCEPT ![self] = "S"]
                                      /\ m' = [m EXCEPT ![self] = m[self]]
                                      /\ stack' = [stack EXCEPT ![self] = << [ procedure |->  "Deliver",
                                                                               pc        |->  "MG9",
                                                                               lg        |->  lg[self],
                                                                               sx        |->  sx[self],
                                                                               jx        |->  jx[self],
                                                                               ch        |->  ch[self],
                                                                               lv        |->  lv[self],
                                                                               snap      |->  snap[self],
                                                                               fr        |->  fr[self],
                                                                               to        |->  to[self],
                                                                               m         |->  m[self] ] >>
                                                                           \o stack[self]]
                                      /\ to' = [to EXCEPT ![self] = snap[self][1]]
                                   /\ lg' = [lg EXCEPT ![self] = FALSE]
                                   /\ sx' = [sx EXCEPT ![self] = 0]
                                   /\ jx' = [jx EXCEPT ![self] = 0]
                                   /\ ch' = [ch EXCEPT ![self] = ""]
                                   /\ lv' = [lv EXCEPT ![self] = 0]
                                   /\ snap' = [snap EXCEPT ![self] = <<>>]
                                   /\ pc' = [pc EXCEPT ![self] = "DStart"]
                        /\ UNCHANGED << ci, st, nd, sk, pi, fi, tasks, now, 
                                        obs, script, ntop, panicked, started, 
                                        mon, done, ka, ca, gx, ex, nx, fx, bx, 
                                        bc, tx, ta, tc, ft, act, sj, tk >>

mg_late_ld(self) == /\ pc[self] = "mg_late_ld"
                    /\ IF S(to[self]).ended
                          THEN /\ /\ fr' = [fr EXCEPT ![self] = "S"]
                                  /\ m' = [m EXCEPT ![self] = Msg("T")]
                                  /\ stack' = [stack EXCEPT ![self] = << [ procedure |->  "Deliver",
                                                                           pc        |->  "mg_late_ret",
                                                                           lg        |->  lg[self],
                                                                           sx        |->  sx[self],
                                                                           jx        |->  jx[self],
                                                                           ch        |->  ch[self],
                                                                           lv        |->  lv[self],
                                                                           snap      |->  snap[self],
                                                                           fr        |->  fr[self],
                                                                           to        |->  to[self],
                                                                           m         |->  m[self] ] >>
                                                                       \o stack[self]]
                                  /\ to' = [to EXCEPT ![self] = m[self].tb]
                               /\ lg' = [lg EXCEPT ![self] = FALSE]
                               /\ sx' = [sx EXCEPT ![self] = 0]
                               /\ jx' = [jx EXCEPT ![self] = 0]
                               /\ ch' = [ch EXCEPT ![self] = ""]
                               /\ lv' = [lv EXCEPT ![self] = 0]
                               /\ snap' = [snap EXCEPT ![self] = <<>>]
                               /\ pc' = [pc EXCEPT ![self] = "DStart"]
                          ELSE /\ pc' = [pc EXCEPT ![self] = "mg_tb_st"]
                               /\ UNCHANGED << stack, fr, to, m, lg, sx, jx, 
                                               ch, lv, snap >>
                    /\ UNCHANGED << ci, st, nd, sk, pi, fi, tasks, now, obs, 
                                    script, ntop, panicked, started, mon, done, 
                                    ka, ca, gx, ex, nx, fx, bx, bc, tx, ta, tc, 
                                    ft, act, sj, tk >>

mg_late_ret(self) == /\ pc[self] = "mg_late_ret"
                     /\ pc' = [pc EXCEPT ![self] = "Ret"]
                     /\ UNCHANGED << ci, st, nd, sk, pi, fi, tasks, now, obs, 
                                     script, ntop, panicked, started, mon, 
                                     done, stack, fr, to, m, lg, sx, jx, ch, 
                                     lv, snap, ka, ca, gx, ex, nx, fx, bx, bc, 
                                     tx, ta, tc, ft, act, sj, tk >>

mg_tb_st(self) == /\ pc[self] = "mg_tb_st"
                  /\ st' = [st EXCEPT ![to[self].n][to[self].s].tbs[to[self].i] = m[self].tb]
                  /\ pc' = [pc EXCEPT ![self] = "mg_start_fa"]
                  /\ UNCHANGED << ci, nd, sk, pi, fi, tasks, now, obs, script, 
                                  ntop, panicked, started, mon, done, stack, 
                                  fr, to, m, lg, sx, jx, ch, lv, snap, ka, ca, 
                                  gx, ex, nx, fx, bx, bc, tx, ta, tc, ft, act, 
                                  sj, tk >>

mg_start_fa(self) == /\ pc[self] = "mg_start_fa"
                     /\ lv' = [lv EXCEPT ![self] = S(to[self]).start + 1]
                     /\ st' = [st EXCEPT ![to[self].n][to[self].s].start = S(to[self]).start + 1]
                     /\ pc' = [pc EXCEPT ![self] = "mg_greet"]
                     /\ UNCHANGED << ci, nd, sk, pi, fi, tasks, now, obs, 
                                     script, ntop, panicked, started, mon, 
                                     done, stack, fr, to, m, lg, sx, jx, ch, 
                                     snap, ka, ca, gx, ex, nx, fx, bx, bc, tx, 
                                     ta, tc, ft, act, sj, tk >>

mg_greet(self) == /\ pc[self] = "mg_greet"
                  /\ IF lv[self] = 1
                        THEN /\ /\ fr' = [fr EXCEPT ![self] = "S"]
                                /\ m' = [m EXCEPT ![self] = MsgH(Ref(to[self].n, "tb", to[self].s, 0))]
                                /\ stack' = [stack EXCEPT ![self] = << [ procedure |->  "Deliver",
                                                                         pc        |->  "MG3",
                                                                         lg        |->  lg[self],
                                                                         sx        |->  sx[self],
                                                                         jx        |->  jx[self],
                                                                         ch        |->  ch[self],
                                                                         lv        |->  lv[self],
                                                                         snap      |->  snap[self],
                                                                         fr        |->  fr[self],
                                                                         to        |->  to[self],
                                                                         m         |->  m[self] ] >>
                                                                     \o stack[self]]
                                /\ to' = [to EXCEPT ![self] = S(to[self]).sink]
                             /\ lg' = [lg EXCEPT ![self] = FALSE]
                             /\ sx' = [sx EXCEPT ![self] = 0]
                             /\ jx' = [jx EXCEPT ![self] = 0]
                             /\ ch' = [ch EXCEPT ![self] = ""]
                             /\ lv' = [lv EXCEPT ![self] = 0]
                             /\ snap' = [snap EXCEPT ![self] = <<>>]
                             /\ pc' = [pc EXCEPT ![self] = "DStart"]
                        ELSE /\ pc' = [pc EXCEPT ![self] = "MG3"]
                             /\ UNCHANGED << stack, fr, to, m, lg, sx, jx, ch, 
                                             lv, snap >>
                  /\ UNCHANGED << ci, st, nd, sk, pi, fi, tasks, now, obs, 
                                  script, ntop, panicked, started, mon, done, 
                                  ka, ca, gx, ex, nx, fx, bx, bc, tx, ta, tc, 
                                  ft, act, sj, tk >>

MG3(self) == /\ pc[self] = "MG3"
             /\ pc' = [pc EXCEPT ![self] = "Ret"]
             /\ UNCHANGED << ci, st, nd, sk, pi, fi, tasks, now, obs, script, 
                             ntop, panicked, started, mon, done, stack, fr, to, 
                             m, lg, sx, jx, ch, lv, snap, ka, ca, gx, ex, nx, 
                             fx, bx, bc, tx, ta, tc, ft, act, sj, tk >>

mg_data(self) == /\ pc[self] = "mg_data"
                 /\ /\ fr' = [fr EXCEPT ![self] = "S"]
                    /\ m' = [m EXCEPT ![self] = m[self]]
                    /\ stack' = [stack EXCEPT ![self] = << [ procedure |->  "Deliver",
                                                             pc        |->  "MG4",
                                                             lg        |->  lg[self],
                                                             sx        |->  sx[self],
                                                             jx        |->  jx[self],
                                                             ch        |->  ch[self],
                                                             lv        |->  lv[self],
                                                             snap      |->  snap[self],
                                                             fr        |->  fr[self],
                                                             to        |->  to[self],
                                                             m         |->  m[self] ] >>
                                                         \o stack[self]]
                    /\ to' = [to EXCEPT ![self] = S(to[self]).sink]
                 /\ lg' = [lg EXCEPT ![self] = FALSE]
                 /\ sx' = [sx EXCEPT ![self] = 0]
                 /\ jx' = [jx EXCEPT ![self] = 0]
                 /\ ch' = [ch EXCEPT ![self] = ""]
                 /\ lv' = [lv EXCEPT ![self] = 0]
                 /\ snap' = [snap EXCEPT ![self] = <<>>]
                 /\ pc' = [pc EXCEPT ![self] = "DStart"]
                 /\ UNCHANGED << ci, st, nd, sk, pi, fi, tasks, now, obs, 
                                 script, ntop, panicked, started, mon, done, 
                                 ka, ca, gx, ex, nx, fx, bx, bc, tx, ta, tc, 
                                 ft, act, sj, tk >>

MG4(self) == /\ pc[self] = "MG4"
             /\ pc' = [pc EXCEPT ![self] = "Ret"]
             /\ UNCHANGED << ci, st, nd, sk, pi, fi, tasks, now, obs, script, 
                             ntop, panicked, started, mon, done, stack, fr, to, 
                             m, lg, sx, jx, ch, lv, snap, ka, ca, gx, ex, nx, 
                             fx, bx, bc, tx, ta, tc, ft, act, sj, tk >>

mg_ended_st(self) == /\ pc[self] = "mg_ended_st"
                     /\ st' = [st EXCEPT ![to[self].n][to[self].s].ended = TRUE]
                     /\ jx' = [jx EXCEPT ![self] = IF to[self].i = 1 THEN 2 ELSE 1]
                     /\ pc' = [pc EXCEPT ![self] = "mg_sib_ld"]
                     /\ UNCHANGED << ci, nd, sk, pi, fi, tasks, now, obs, 
                                     script, ntop, panicked, started, mon, 
                                     done, stack, fr, to, m, lg, sx, ch, lv, 
                                     snap, ka, ca, gx, ex, nx, fx, bx, bc, tx, 
                                     ta, tc, ft, act, sj, tk >>

mg_sib_ld(self) == /\ pc[self] = "mg_sib_ld"
                   /\ IF jx[self] <= Len(Ups(to[self].n))
                         THEN /\ IF S(to[self]).tbs[jx[self]] # NoRef
                                    THEN /\ pc' = [pc EXCEPT ![self] = "mg_sib_term"]
                                    ELSE /\ pc' = [pc EXCEPT ![self] = "MG5"]
                         ELSE /\ pc' = [pc EXCEPT ![self] = "mg_err"]
                   /\ UNCHANGED << ci, st, nd, sk, pi, fi, tasks, now, obs, 
                                   script, ntop, panicked, started, mon, done, 
                                   stack, fr, to, m, lg, sx, jx, ch, lv, snap, 
                                   ka, ca, gx, ex, nx, fx, bx, bc, tx, ta, tc, 
                                   ft, act, sj, tk >>

MG5(self) == /\ pc[self] = "MG5"
             /\ jx' = [jx EXCEPT ![self] = IF jx[self] + 1 = to[self].i THEN jx[self] + 2 ELSE jx[self] + 1]
             /\ pc' = [pc EXCEPT ![self] = "mg_sib_ld"]
             /\ UNCHANGED << ci, st, nd, sk, pi, fi, tasks, now, obs, script, 
                             ntop, panicked, started, mon, done, stack, fr, to, 
                             m, lg, sx, ch, lv, snap, ka, ca, gx, ex, nx, fx, 
                             bx, bc, tx, ta, tc, ft, act, sj, tk >>

mg_sib_term(self) == /\ pc[self] = "mg_sib_term"
                     /\ /\ fr' = [fr EXCEPT ![self] = "S"]
                        /\ m' = [m EXCEPT ![self] = Msg("T")]
                        /\ stack' = [stack EXCEPT ![self] = << [ procedure |->  "Deliver",
                                                                 pc        |->  "MG5",
                                                                 lg        |->  lg[self],
                                                                 sx        |->  sx[self],
                                                                 jx        |->  jx[self],
                                                                 ch        |->  ch[self],
                                                                 lv        |->  lv[self],
                                                                 snap      |->  snap[self],
                                                                 fr        |->  fr[self],
                                                                 to        |->  to[self],
                                                                 m         |->  m[self] ] >>
                                                             \o stack[self]]
                        /\ to' = [to EXCEPT ![self] = S(to[self]).tbs[jx[self]]]
                     /\ lg' = [lg EXCEPT ![self] = FALSE]
                     /\ sx' = [sx EXCEPT ![self] = 0]
                     /\ jx' = [jx EXCEPT ![self] = 0]
                     /\ ch' = [ch EXCEPT ![self] = ""]
                     /\ lv' = [lv EXCEPT ![self] = 0]
                     /\ snap' = [snap EXCEPT ![self] = <<>>]
                     /\ pc' = [pc EXCEPT ![self] = "DStart"]
                     /\ UNCHANGED << ci, st, nd, sk, pi, fi, tasks, now, obs, 
                                     script, ntop, panicked, started, mon, 
                                     done, ka, ca, gx, ex, nx, fx, bx, bc, tx, 
                                     ta, tc, ft, act, sj, tk >>

mg_err(self) == /\ pc[self] = "mg_err"
                /\ /\ fr' = [fr EXCEPT ![self] = "S"]
                   /\ m' = [m EXCEPT ![self] = m[self]]
                   /\ stack' = [stack EXCEPT ![self] = << [ procedure |->  "Deliver",
                                                            pc        |->  "MG6",
                                                            lg        |->  lg[self],
                                                            sx        |->  sx[self],
                                                            jx        |->  jx[self],
                                                            ch        |->  ch[self],
                                                            lv        |->  lv[self],
                                                            snap      |->  snap[self],
                                                            fr        |->  fr[self],
                                                            to        |->  to[self],
                                                            m         |->  m[self] ] >>
                                                        \o stack[self]]
                   /\ to' = [to EXCEPT ![self] = S(to[self]).sink]
                /\ lg' = [lg EXCEPT ![self] = FALSE]
                /\ sx' = [sx EXCEPT ![self] = 0]
                /\ jx' = [jx EXCEPT ![self] = 0]
                /\ ch' = [ch EXCEPT ![self] = ""]
                /\ lv' = [lv EXCEPT ![self] = 0]
                /\ snap' = [snap EXCEPT ![self] = <<>>]
                /\ pc' = [pc EXCEPT ![self] = "DStart"]
                /\ UNCHANGED << ci, st, nd, sk, pi, fi, tasks, now, obs, 
                                script, ntop, panicked, started, mon, done, ka, 
                                ca, gx, ex, nx, fx, bx, bc, tx, ta, tc, ft, 
                                act, sj, tk >>

MG6(self) == /\ pc[self] = "MG6"
             /\ pc' = [pc EXCEPT ![self] = "Ret"]
             /\ UNCHANGED << ci, st, nd, sk, pi, fi, tasks, now, obs, script, 
                             ntop, panicked, started, mon, done, stack, fr, to, 
                             m, lg, sx, jx, ch, lv, snap, ka, ca, gx, ex, nx, 
                             fx, bx, bc, tx, ta, tc, ft, act, sj, tk >>

mg_tb_clr(self) == /\ pc[self] = "mg_tb_clr"
                   /\ st' = [st EXCEPT ![to[self].n][to[self].s].tbs[to[self].i] = NoRef]
                   /\ pc' = [pc EXCEPT ![self] = "mg_end_fa"]
                   /\ UNCHANGED << ci, nd, sk, pi, fi, tasks, now, obs, script, 
                                   ntop, panicked, started, mon, done, stack, 
                                   fr, to, m, lg, sx, jx, ch, lv, snap, ka, ca, 
                                   gx, ex, nx, fx, bx, bc, tx, ta, tc, ft, act, 
                                   sj, tk >>

mg_end_fa(self) == /\ pc[self] = "mg_end_fa"
                   /\ lv' = [lv EXCEPT ![self] = S(to[self]).endc + 1]
                   /\ st' = [st EXCEPT ![to[self].n][to[self].s].endc = S(to[self]).endc + 1]
                   /\ pc' = [pc EXCEPT ![self] = "mg_term"]
                   /\ UNCHANGED << ci, nd, sk, pi, fi, tasks, now, obs, script, 
                                   ntop, panicked, started, mon, done, stack, 
                                   fr, to, m, lg, sx, jx, ch, snap, ka, ca, gx, 
                                   ex, nx, fx, bx, bc, tx, ta, tc, ft, act, sj, 
                                   tk >>

mg_term(self) == /\ pc[self] = "mg_term"
                 /\ IF lv[self] = Len(Ups(to[self].n))
                       THEN /\ /\ fr' = [fr EXCEPT ![self] = "S"]
                               /\ m' = [m EXCEPT ![self] = Msg("T")]
                               /\ stack' = [stack EXCEPT ![self] = << [ procedure |->  "Deliver",
                                                                        pc        |->  "MG7",
                                                                        lg        |->  lg[self],
                                                                        sx        |->  sx[self],
                                                                        jx        |->  jx[self],
                                                                        ch        |->  ch[self],
                                                                        lv        |->  lv[self],
                                                                        snap      |->  snap[self],
                                                                        fr        |->  fr[self],
                                                                        to        |->  to[self],
                                                                        m         |->  m[self] ] >>
                                                                    \o stack[self]]
                               /\ to' = [to EXCEPT ![self] = S(to[self]).sink]
                            /\ lg' = [lg EXCEPT ![self] = FALSE]
                            /\ sx' = [sx EXCEPT ![self] = 0]
                            /\ jx' = [jx EXCEPT ![self] = 0]
                            /\ ch' = [ch EXCEPT ![self] = ""]
                            /\ lv' = [lv EXCEPT ![self] = 0]
                            /\ snap' = [snap EXCEPT ![self] = <<>>]
                            /\ pc' = [pc EXCEPT ![self] = "DStart"]
                       ELSE /\ pc' = [pc EXCEPT ![self] = "MG7"]
                            /\ UNCHANGED << stack, fr, to, m, lg, sx, jx, ch, 
                                            lv, snap >>
                 /\ UNCHANGED << ci, st, nd, sk, pi, fi, tasks, now, obs, 
                                 script, ntop, panicked, started, mon, done, 
                                 ka, ca, gx, ex, nx, fx, bx, bc, tx, ta, tc, 
                                 ft, act, sj, tk >>

MG7(self) == /\ pc[self] = "MG7"
             /\ pc' = [pc EXCEPT ![self] = "Ret"]
             /\ UNCHANGED << ci, st, nd, sk, pi, fi, tasks, now, obs, script, 
                             ntop, panicked, started, mon, done, stack, fr, to, 
                             m, lg, sx, jx, ch, lv, snap, ka, ca, gx, ex, nx, 
                             fx, bx, bc, tx, ta, tc, ft, act, sj, tk >>

mg_tk_ended_st(self) == /\ pc[self] = "mg_tk_ended_st"
                        /\ st' = [st EXCEPT ![to[self].n][to[self].s].ended = TRUE]
                        /\ pc' = [pc EXCEPT ![self] = "MG8a"]
                        /\ UNCHANGED << ci, nd, sk, pi, fi, tasks, now, obs, 
                                        script, ntop, panicked, started, mon, 
                                        done, stack, fr, to, m, lg, sx, jx, ch, 
                                        lv, snap, ka, ca, gx, ex, nx, fx, bx, 
                                        bc, tx, ta, tc, ft, act, sj, tk >>

CCNext(self) == /\ pc[self] = "CCNext"
                /\ IF st[to[self].n][sx[self]].i = Len(Ups(to[self].n))
                      THEN /\ /\ fr' = [fr EXCEPT ![self] = "S"]
                              /\ m' = [m EXCEPT ![self] = Msg("T")]
                              /\ stack' = [stack EXCEPT ![self] = << [ procedure |->  "Deliver",
                                                                       pc        |->  "CC7",
                                                                       lg        |->  lg[self],
                                                                       sx        |->  sx[self],
                                                                       jx        |->  jx[self],
                                                                       ch        |->  ch[self],
                                                                       lv        |->  lv[self],
                                                                       snap      |->  snap[self],
                                                                       fr        |->  fr[self],
                                                                       to        |->  to[self],
                                                                       m         |->  m[self] ] >>
                                                                   \o stack[self]]
                              /\ to' = [to EXCEPT ![self] = st[to[self].n][sx[self]].sink]
                           /\ lg' = [lg EXCEPT ![self] = FALSE]
                           /\ sx' = [sx EXCEPT ![self] = 0]
                           /\ jx' = [jx EXCEPT ![self] = 0]
                           /\ ch' = [ch EXCEPT ![self] = ""]
                           /\ lv' = [lv EXCEPT ![self] = 0]
                           /\ snap' = [snap EXCEPT ![self] = <<>>]
                           /\ pc' = [pc EXCEPT ![self] = "DStart"]
                      ELSE /\ /\ fr' = [fr EXCEPT ![self] = "S"]
                              /\ m' = [m EXCEPT ![self] = MsgH(Ref(to[self].n, "up", sx[self], 0))]
                              /\ stack' = [stack EXCEPT ![self] = << [ procedure |->  "Deliver",
                                                                       pc        |->  "CC7",
                                                                       lg        |->  lg[self],
                                                                       sx        |->  sx[self],
                                                                       jx        |->  jx[self],
                                                                       ch        |->  ch[self],
                                                                       lv        |->  lv[self],
                                                                       snap      |->  snap[self],
                                                                       fr        |->  fr[self],
                                                                       to        |->  to[self],
                                                                       m         |->  m[self] ] >>
                                                                   \o stack[self]]
                              /\ to' = [to EXCEPT ![self] = Ref(Ups(to[self].n)[st[to[self].n][sx[self]].i + 1], "src", 0, 0)]
                           /\ lg' = [lg EXCEPT ![self] = FALSE]
                           /\ sx' = [sx EXCEPT ![self] = 0]
                           /\ jx' = [jx EXCEPT ![self] = 0]
                           /\ ch' = [ch EXCEPT ![self] = ""]
                           /\ lv' = [lv EXCEPT ![self] = 0]
                           /\ snap' = [snap EXCEPT ![self] = <<>>]
                           /\ pc' = [pc EXCEPT ![self] = "DStart"]
                /\ UNCHANGED << ci, st, nd, sk, pi, fi, tasks, now, obs, 
                                script, ntop, panicked, started, mon, done, ka, 
                                ca, gx, ex, nx, fx, bx, bc, tx, ta, tc, ft, 
                                act, sj, tk >>

CC7(self) == /\ pc[self] = "CC7"
             /\ pc' = [pc EXCEPT ![self] = "Ret"]
             /\ UNCHANGED << ci, st, nd, sk, pi, fi, tasks, now, obs, script, 
                             ntop, panicked, started, mon, done, stack, fr, to, 
                             m, lg, sx, jx, ch, lv, snap, ka, ca, gx, ex, nx, 
                             fx, bx, bc, tx, ta, tc, ft, act, sj, tk >>

CC0(self) == /\ pc[self] = "CC0"
             /\ /\ fr' = [fr EXCEPT ![self] = "S"]
                /\ m' = [m EXCEPT ![self] = MsgH(Ref(to[self].n, "ntb", sx[self], 0))]
                /\ stack' = [stack EXCEPT ![self] = << [ procedure |->  "Deliver",
                                                         pc        |->  "CC0b",
                                                         lg        |->  lg[self],
                                                         sx        |->  sx[self],
                                                         jx        |->  jx[self],
                                                         ch        |->  ch[self],
                                                         lv        |->  lv[self],
                                                         snap      |->  snap[self],
                                                         fr        |->  fr[self],
                                                         to        |->  to[self],
                                                         m         |->  m[self] ] >>
                                                     \o stack[self]]
                /\ to' = [to EXCEPT ![self] = st[to[self].n][sx[self]].sink]
             /\ lg' = [lg EXCEPT ![self] = FALSE]
             /\ sx' = [sx EXCEPT ![self] = 0]
             /\ jx' = [jx EXCEPT ![self] = 0]
             /\ ch' = [ch EXCEPT ![self] = ""]
             /\ lv' = [lv EXCEPT ![self] = 0]
             /\ snap' = [snap EXCEPT ![self] = <<>>]
             /\ pc' = [pc EXCEPT ![self] = "DStart"]
             /\ UNCHANGED << ci, st, nd, sk, pi, fi, tasks, now, obs, script, 
                             ntop, panicked, started, mon, done, ka, ca, gx, 
                             ex, nx, fx, bx, bc, tx, ta, tc, ft, act, sj, tk >>

CC0b(self) == /\ pc[self] = "CC0b"
              /\ IF ~st[to[self].n][sx[self]].gotpull
                    THEN /\ /\ fr' = [fr EXCEPT ![self] = "S"]
                            /\ m' = [m EXCEPT ![self] = Msg("T")]
                            /\ stack' = [stack EXCEPT ![self] = << [ procedure |->  "Deliver",
                                                                     pc        |->  "CC0c",
                                                                     lg        |->  lg[self],
                                                                     sx        |->  sx[self],
                                                                     jx        |->  jx[self],
                                                                     ch        |->  ch[self],
                                                                     lv        |->  lv[self],
                                                                     snap      |->  snap[self],
                                                                     fr        |->  fr[self],
                                                                     to        |->  to[self],
                                                                     m         |->  m[self] ] >>
                                                                 \o stack[self]]
                            /\ to' = [to EXCEPT ![self] = st[to[self].n][sx[self]].sink]
                         /\ lg' = [lg EXCEPT ![self] = FALSE]
                         /\ sx' = [sx EXCEPT ![self] = 0]
                         /\ jx' = [jx EXCEPT ![self] = 0]
                         /\ ch' = [ch EXCEPT ![self] = ""]
                         /\ lv' = [lv EXCEPT ![self] = 0]
                         /\ snap' = [snap EXCEPT ![self] = <<>>]
                         /\ pc' = [pc EXCEPT ![self] = "DStart"]
                    ELSE /\ pc' = [pc EXCEPT ![self] = "CC0c"]
                         /\ UNCHANGED << stack, fr, to, m, lg, sx, jx, ch, lv, 
                                         snap >>
              /\ UNCHANGED << ci, st, nd, sk, pi, fi, tasks, now, obs, script, 
                              ntop, panicked, started, mon, done, ka, ca, gx, 
                              ex, nx, fx, bx, bc, tx, ta, tc, ft, act, sj, tk >>

CC0c(self) == /\ pc[self] = "CC0c"
              /\ pc' = [pc EXCEPT ![self] = "Ret"]
              /\ UNCHANGED << ci, st, nd, sk, pi, fi, tasks, now, obs, script, 
                              ntop, panicked, started, mon, done, stack, fr, 
                              to, m, lg, sx, jx, ch, lv, snap, ka, ca, gx, ex, 
                              nx, fx, bx, bc, tx, ta, tc, ft, act, sj, tk >>

CC1(self) == /\ pc[self] = "CC1"
             /\ IF S(to[self]).i = 0
                   THEN /\ /\ fr' = [fr EXCEPT ![self] = "S"]
                           /\ m' = [m EXCEPT ![self] = MsgH(Ref(to[self].n, "tb", to[self].s, 0))]
                           /\ stack' = [stack EXCEPT ![self] = << [ procedure |->  "Deliver",
                                                                    pc        |->  "CC2",
                                                                    lg        |->  lg[self],
                                                                    sx        |->  sx[self],
                                                                    jx        |->  jx[self],
                                                                    ch        |->  ch[self],
                                                                    lv        |->  lv[self],
                                                                    snap      |->  snap[self],
                                                                    fr        |->  fr[self],
                                                                    to        |->  to[self],
                                                                    m         |->  m[self] ] >>
                                                                \o stack[self]]
                           /\ to' = [to EXCEPT ![self] = S(to[self]).sink]
                        /\ lg' = [lg EXCEPT ![self] = FALSE]
                        /\ sx' = [sx EXCEPT ![self] = 0]
                        /\ jx' = [jx EXCEPT ![self] = 0]
                        /\ ch' = [ch EXCEPT ![self] = ""]
                        /\ lv' = [lv EXCEPT ![self] = 0]
                        /\ snap' = [snap EXCEPT ![self] = <<>>]
                        /\ pc' = [pc EXCEPT ![self] = "DStart"]
                   ELSE /\ IF S(to[self]).gotpull
                              THEN /\ /\ fr' = [fr EXCEPT ![self] = "S"]
                                      /\ m' = [m EXCEPT ![self] = Msg("P")]
                                      /\ stack' = [stack EXCEPT ![self] = << [ procedure |->  "Deliver",
                                                                               pc        |->  "CC2",
                                                                               lg        |->  lg[self],
                                                                               sx        |->  sx[self],
                                                                               jx        |->  jx[self],
                                                                               ch        |->  ch[self],
                                                                               lv        |->  lv[self],
                                                                               snap      |->  snap[self],
                                                                               fr        |->  fr[self],
                                                                               to        |->  to[self],
                                                                               m         |->  m[self] ] >>
                                                                           \o stack[self]]
                                      /\ to' = [to EXCEPT ![self] = S(to[self]).utb]
                                   /\ lg' = [lg EXCEPT ![self] = FALSE]
                                   /\ sx' = [sx EXCEPT ![self] = 0]
                                   /\ jx' = [jx EXCEPT ![self] = 0]
                                   /\ ch' = [ch EXCEPT ![self] = ""]
                                   /\ lv' = [lv EXCEPT ![self] = 0]
                                   /\ snap' = [snap EXCEPT ![self] = <<>>]
                                   /\ pc' = [pc EXCEPT ![self] = "DStart"]
                              ELSE /\ pc' = [pc EXCEPT ![self] = "CC2"]
                                   /\ UNCHANGED << stack, fr, to, m, lg, sx, 
                                                   jx, ch, lv, snap >>
             /\ UNCHANGED << ci, st, nd, sk, pi, fi, tasks, now, obs, script, 
                             ntop, panicked, started, mon, done, ka, ca, gx, 
                             ex, nx, fx, bx, bc, tx, ta, tc, ft, act, sj, tk >>

CC2(self) == /\ pc[self] = "CC2"
             /\ pc' = [pc EXCEPT ![self] = "Ret"]
             /\ UNCHANGED << ci, st, nd, sk, pi, fi, tasks, now, obs, script, 
                             ntop, panicked, started, mon, done, stack, fr, to, 
                             m, lg, sx, jx, ch, lv, snap, ka, ca, gx, ex, nx, 
                             fx, bx, bc, tx, ta, tc, ft, act, sj, tk >>

CC3(self) == /\ pc[self] = "CC3"
             /\ pc' = [pc EXCEPT ![self] = "Ret"]
             /\ UNCHANGED << ci, st, nd, sk, pi, fi, tasks, now, obs, script, 
                             ntop, panicked, started, mon, done, stack, fr, to, 
                             m, lg, sx, jx, ch, lv, snap, ka, ca, gx, ex, nx, 
                             fx, bx, bc, tx, ta, tc, ft, act, sj, tk >>

CC4(self) == /\ pc[self] = "CC4"
             /\ pc' = [pc EXCEPT ![self] = "Ret"]
             /\ UNCHANGED << ci, st, nd, sk, pi, fi, tasks, now, obs, script, 
                             ntop, panicked, started, mon, done, stack, fr, to, 
                             m, lg, sx, jx, ch, lv, snap, ka, ca, gx, ex, nx, 
                             fx, bx, bc, tx, ta, tc, ft, act, sj, tk >>

CC5(self) == /\ pc[self] = "CC5"
             /\ IF S(to[self]).utb = NoRef
                   THEN /\ obs' = LogO(obs \o [q \in 1..OpenCount(obs, 1, 0) |-> RetEv(ThOf(self))],
                                       Ev("panic", ThOf(self), "", "", "", 0))
                        /\ panicked' = TRUE
                        /\ pc' = [pc EXCEPT ![self] = "Halt"]
                        /\ UNCHANGED << stack, fr, to, m, lg, sx, jx, ch, lv, 
                                        snap >>
                   ELSE /\ /\ fr' = [fr EXCEPT ![self] = "S"]
                           /\ m' = [m EXCEPT ![self] = m[self]]
                           /\ stack' = [stack EXCEPT ![self] = << [ procedure |->  "Deliver",
                                                                    pc        |->  "CC6",
                                                                    lg        |->  lg[self],
                                                                    sx        |->  sx[self],
                                                                    jx        |->  jx[self],
                                                                    ch        |->  ch[self],
                                                                    lv        |->  lv[self],
                                                                    snap      |->  snap[self],
                                                                    fr        |->  fr[self],
                                                                    to        |->  to[self],
                                                                    m         |->  m[self] ] >>
                                                                \o stack[self]]
                           /\ to' = [to EXCEPT ![self] = S(to[self]).utb]
                        /\ lg' = [lg EXCEPT ![self] = FALSE]
                        /\ sx' = [sx EXCEPT ![self] = 0]
                        /\ jx' = [jx EXCEPT ![self] = 0]
                        /\ ch' = [ch EXCEPT ![self] = ""]
                        /\ lv' = [lv EXCEPT ![self] = 0]
                        /\ snap' = [snap EXCEPT ![self] = <<>>]
                        /\ pc' = [pc EXCEPT ![self] = "DStart"]
                        /\ UNCHANGED << obs, panicked >>
             /\ UNCHANGED << ci, st, nd, sk, pi, fi, tasks, now, script, ntop, 
                             started, mon, done, ka, ca, gx, ex, nx, fx, bx, 
                             bc, tx, ta, tc, ft, act, sj, tk >>

CC6(self) == /\ pc[self] = "CC6"
             /\ pc' = [pc EXCEPT ![self] = "Ret"]
             /\ UNCHANGED << ci, st, nd, sk, pi, fi, tasks, now, obs, script, 
                             ntop, panicked, started, mon, done, stack, fr, to, 
                             m, lg, sx, jx, ch, lv, snap, ka, ca, gx, ex, nx, 
                             fx, bx, bc, tx, ta, tc, ft, act, sj, tk >>

CB1(self) == /\ pc[self] = "CB1"
             /\ IF jx[self] <= Len(Ups(to[self].n))
                   THEN /\ /\ fr' = [fr EXCEPT ![self] = "S"]
                           /\ m' = [m EXCEPT ![self] = MsgH(Ref(to[self].n, "up", sx[self], jx[self]))]
                           /\ stack' = [stack EXCEPT ![self] = << [ procedure |->  "Deliver",
                                                                    pc        |->  "CB2",
                                                                    lg        |->  lg[self],
                                                                    sx        |->  sx[self],
                                                                    jx        |->  jx[self],
                                                                    ch        |->  ch[self],
                                                                    lv        |->  lv[self],
                                                                    snap      |->  snap[self],
                                                                    fr        |->  fr[self],
                                                                    to        |->  to[self],
                                                                    m         |->  m[self] ] >>
                                                                \o stack[self]]
                           /\ to' = [to EXCEPT ![self] = Ref(Ups(to[self].n)[jx[self]], "src", 0, 0)]
                        /\ lg' = [lg EXCEPT ![self] = FALSE]
                        /\ sx' = [sx EXCEPT ![self] = 0]
                        /\ jx' = [jx EXCEPT ![self] = 0]
                        /\ ch' = [ch EXCEPT ![self] = ""]
                        /\ lv' = [lv EXCEPT ![self] = 0]
                        /\ snap' = [snap EXCEPT ![self] = <<>>]
                        /\ pc' = [pc EXCEPT ![self] = "DStart"]
                   ELSE /\ pc' = [pc EXCEPT ![self] = "Ret"]
                        /\ UNCHANGED << stack, fr, to, m, lg, sx, jx, ch, lv, 
                                        snap >>
             /\ UNCHANGED << ci, st, nd, sk, pi, fi, tasks, now, obs, script, 
                             ntop, panicked, started, mon, done, ka, ca, gx, 
                             ex, nx, fx, bx, bc, tx, ta, tc, ft, act, sj, tk >>

CB2(self) == /\ pc[self] = "CB2"
             /\ jx' = [jx EXCEPT ![self] = jx[self] + 1]
             /\ pc' = [pc EXCEPT ![self] = "CB1"]
             /\ UNCHANGED << ci, st, nd, sk, pi, fi, tasks, now, obs, script, 
                             ntop, panicked, started, mon, done, stack, fr, to, 
                             m, lg, sx, ch, lv, snap, ka, ca, gx, ex, nx, fx, 
                             bx, bc, tx, ta, tc, ft, act, sj, tk >>

cb_tb_st(self) == /\ pc[self] = "cb_tb_st"
                  /\ st' = [st EXCEPT ![to[self].n][to[self].s].tbs[to[self].i] = m[self].tb]
                  /\ pc' = [pc EXCEPT ![self] = "cb_start_fs"]
                  /\ UNCHANGED << ci, nd, sk, pi, fi, tasks, now, obs, script, 
                                  ntop, panicked, started, mon, done, stack, 
                                  fr, to, m, lg, sx, jx, ch, lv, snap, ka, ca, 
                                  gx, ex, nx, fx, bx, bc, tx, ta, tc, ft, act, 
                                  sj, tk >>

cb_start_fs(self) == /\ pc[self] = "cb_start_fs"
                     /\ lv' = [lv EXCEPT ![self] = S(to[self]).nstart - 1]
                     /\ st' = [st EXCEPT ![to[self].n][to[self].s].nstart = S(to[self]).nstart - 1]
                     /\ pc' = [pc EXCEPT ![self] = "cb_greet"]
                     /\ UNCHANGED << ci, nd, sk, pi, fi, tasks, now, obs, 
                                     script, ntop, panicked, started, mon, 
                                     done, stack, fr, to, m, lg, sx, jx, ch, 
                                     snap, ka, ca, gx, ex, nx, fx, bx, bc, tx, 
                                     ta, tc, ft, act, sj, tk >>

cb_greet(self) == /\ pc[self] = "cb_greet"
                  /\ IF lv[self] = 0
                        THEN /\ /\ fr' = [fr EXCEPT ![self] = "S"]
                                /\ m' = [m EXCEPT ![self] = MsgH(Ref(to[self].n, "tb", to[self].s, 0))]
                                /\ stack' = [stack EXCEPT ![self] = << [ procedure |->  "Deliver",
                                                                         pc        |->  "CB3",
                                                                         lg        |->  lg[self],
                                                                         sx        |->  sx[self],
                                                                         jx        |->  jx[self],
                                                                         ch        |->  ch[self],
                                                                         lv        |->  lv[self],
                                                                         snap      |->  snap[self],
                                                                         fr        |->  fr[self],
                                                                         to        |->  to[self],
                                                                         m         |->  m[self] ] >>
                                                                     \o stack[self]]
                                /\ to' = [to EXCEPT ![self] = S(to[self]).sink]
                             /\ lg' = [lg EXCEPT ![self] = FALSE]
                             /\ sx' = [sx EXCEPT ![self] = 0]
                             /\ jx' = [jx EXCEPT ![self] = 0]
                             /\ ch' = [ch EXCEPT ![self] = ""]
                             /\ lv' = [lv EXCEPT ![self] = 0]
                             /\ snap' = [snap EXCEPT ![self] = <<>>]
                             /\ pc' = [pc EXCEPT ![self] = "DStart"]
                        ELSE /\ pc' = [pc EXCEPT ![self] = "CB3"]
                             /\ UNCHANGED << stack, fr, to, m, lg, sx, jx, ch, 
                                             lv, snap >>
                  /\ UNCHANGED << ci, st, nd, sk, pi, fi, tasks, now, obs, 
                                  script, ntop, panicked, started, mon, done, 
                                  ka, ca, gx, ex, nx, fx, bx, bc, tx, ta, tc, 
                                  ft, act, sj, tk >>

CB3(self) == /\ pc[self] = "CB3"
             /\ pc' = [pc EXCEPT ![self] = "Ret"]
             /\ UNCHANGED << ci, st, nd, sk, pi, fi, tasks, now, obs, script, 
                             ntop, panicked, started, mon, done, stack, fr, to, 
                             m, lg, sx, jx, ch, lv, snap, ka, ca, gx, ex, nx, 
                             fx, bx, bc, tx, ta, tc, ft, act, sj, tk >>

cb_vals_ld(self) == /\ pc[self] = "cb_vals_ld"
                    /\ jx' = [jx EXCEPT ![self] = IF S(to[self]).has[to[self].i] THEN 0 ELSE 1]
                    /\ pc' = [pc EXCEPT ![self] = "cb_rcu_ld"]
                    /\ UNCHANGED << ci, st, nd, sk, pi, fi, tasks, now, obs, 
                                    script, ntop, panicked, started, mon, done, 
                                    stack, fr, to, m, lg, sx, ch, lv, snap, ka, 
                                    ca, gx, ex, nx, fx, bx, bc, tx, ta, tc, ft, 
                                    act, sj, tk >>

cb_rcu_ld(self) == /\ pc[self] = "cb_rcu_ld"
                   /\ snap' = [snap EXCEPT ![self] = <<S(to[self]).ver>>]
                   /\ pc' = [pc EXCEPT ![self] = "cb_rcu_cas"]
                   /\ UNCHANGED << ci, st, nd, sk, pi, fi, tasks, now, obs, 
                                   script, ntop, panicked, started, mon, done, 
                                   stack, fr, to, m, lg, sx, jx, ch, lv, ka, 
                                   ca, gx, ex, nx, fx, bx, bc, tx, ta, tc, ft, 
                                   act, sj, tk >>

cb_rcu_cas(self) == /\ pc[self] = "cb_rcu_cas"
                    /\ IF S(to[self]).ver # snap[self][1]
                          THEN /\ pc' = [pc EXCEPT ![self] = "cb_rcu_ld"]
                               /\ st' = st
                          ELSE /\ st' = [st EXCEPT ![to[self].n][to[self].s] = [S(to[self]) EXCEPT !.has[to[self].i] = TRUE, !.vals[to[self].i] = m[self].v, !.ver = @ + 1]]
                               /\ pc' = [pc EXCEPT ![self] = "cb_ndata"]
                    /\ UNCHANGED << ci, nd, sk, pi, fi, tasks, now, obs, 
                                    script, ntop, panicked, started, mon, done, 
                                    stack, fr, to, m, lg, sx, jx, ch, lv, snap, 
                                    ka, ca, gx, ex, nx, fx, bx, bc, tx, ta, tc, 
                                    ft, act, sj, tk >>

cb_ndata(self) == /\ pc[self] = "cb_ndata"
                  /\ IF jx[self] = 1
                        THEN /\ pc' = [pc EXCEPT ![self] = "cb_ndata_fs"]
                        ELSE /\ pc' = [pc EXCEPT ![self] = "cb_ndata_ld"]
                  /\ UNCHANGED << ci, st, nd, sk, pi, fi, tasks, now, obs, 
                                  script, ntop, panicked, started, mon, done, 
                                  stack, fr, to, m, lg, sx, jx, ch, lv, snap, 
                                  ka, ca, gx, ex, nx, fx, bx, bc, tx, ta, tc, 
                                  ft, act, sj, tk >>

cb_ndata_fs(self) == /\ pc[self] = "cb_ndata_fs"
                     /\ lv' = [lv EXCEPT ![self] = S(to[self]).ndata - 1]
                     /\ st' = [st EXCEPT ![to[self].n][to[self].s].ndata = S(to[self]).ndata - 1]
                     /\ pc' = [pc EXCEPT ![self] = "cb_emit"]
                     /\ UNCHANGED << ci, nd, sk, pi, fi, tasks, now, obs, 
                                     script, ntop, panicked, started, mon, 
                                     done, stack, fr, to, m, lg, sx, jx, ch, 
                                     snap, ka, ca, gx, ex, nx, fx, bx, bc, tx, 
                                     ta, tc, ft, act, sj, tk >>

cb_ndata_ld(self) == /\ pc[self] = "cb_ndata_ld"
                     /\ lv' = [lv EXCEPT ![self] = S(to[self]).ndata]
                     /\ pc' = [pc EXCEPT ![self] = "cb_emit"]
                     /\ UNCHANGED << ci, st, nd, sk, pi, fi, tasks, now, obs, 
                                     script, ntop, panicked, started, mon, 
                                     done, stack, fr, to, m, lg, sx, jx, ch, 
                                     snap, ka, ca, gx, ex, nx, fx, bx, bc, tx, 
                                     ta, tc, ft, act, sj, tk >>

cb_emit(self) == /\ pc[self] = "cb_emit"
                 /\ IF lv[self] = 0
                       THEN /\ pc' = [pc EXCEPT ![self] = "cb_emit_ld"]
                       ELSE /\ pc' = [pc EXCEPT ![self] = "CB4"]
                 /\ UNCHANGED << ci, st, nd, sk, pi, fi, tasks, now, obs, 
                                 script, ntop, panicked, started, mon, done, 
                                 stack, fr, to, m, lg, sx, jx, ch, lv, snap, 
                                 ka, ca, gx, ex, nx, fx, bx, bc, tx, ta, tc, 
                                 ft, act, sj, tk >>

cb_emit_ld(self) == /\ pc[self] = "cb_emit_ld"
                    /\ IF \E q \in 1..Len(Ups(to[self].n)) : ~S(to[self]).has[q]
                          THEN /\ obs' = LogO(obs \o [q \in 1..OpenCount(obs, 1, 0) |-> RetEv(ThOf(self))],
                                              Ev("panic", ThOf(self), "", "", "", 0))
                               /\ panicked' = TRUE
                               /\ pc' = [pc EXCEPT ![self] = "Halt"]
                               /\ snap' = snap
                          ELSE /\ snap' = [snap EXCEPT ![self] = S(to[self]).vals]
                               /\ pc' = [pc EXCEPT ![self] = "cb_data"]
                               /\ UNCHANGED << obs, panicked >>
                    /\ UNCHANGED << ci, st, nd, sk, pi, fi, tasks, now, script, 
                                    ntop, started, mon, done, stack, fr, to, m, 
                                    lg, sx, jx, ch, lv, ka, ca, gx, ex, nx, fx, 
                                    bx, bc, tx, ta, tc, ft, act, sj, tk >>

cb_data(self) == /\ pc[self] = "cb_data"
                 /\ /\ fr' = [fr EXCEPT ![self] = "S"]
                    /\ m' = [m EXCEPT ![self] = MsgD(snap[self])]
                    /\ stack' = [stack EXCEPT ![self] = << [ procedure |->  "Deliver",
                                                             pc        |->  "CB4",
                                                             lg        |->  lg[self],
                                                             sx        |->  sx[self],
                                                             jx        |->  jx[self],
                                                             ch        |->  ch[self],
                                                             lv        |->  lv[self],
                                                             snap      |->  snap[self],
                                                             fr        |->  fr[self],
                                                             to        |->  to[self],
                                                             m         |->  m[self] ] >>
                                                         \o stack[self]]
                    /\ to' = [to EXCEPT ![self] = S(to[self]).sink]
                 /\ lg' = [lg EXCEPT ![self] = FALSE]
                 /\ sx' = [sx EXCEPT ![self] = 0]
                 /\ jx' = [jx EXCEPT ![self] = 0]
                 /\ ch' = [ch EXCEPT ![self] = ""]
                 /\ lv' = [lv EXCEPT ![self] = 0]
                 /\ snap' = [snap EXCEPT ![self] = <<>>]
                 /\ pc' = [pc EXCEPT ![self] = "DStart"]
                 /\ UNCHANGED << ci, st, nd, sk, pi, fi, tasks, now, obs, 
                                 script, ntop, panicked, started, mon, done, 
                                 ka, ca, gx, ex, nx, fx, bx, bc, tx, ta, tc, 
                                 ft, act, sj, tk >>

CB4(self) == /\ pc[self] = "CB4"
             /\ pc' = [pc EXCEPT ![self] = "Ret"]
             /\ UNCHANGED << ci, st, nd, sk, pi, fi, tasks, now, obs, script, 
                             ntop, panicked, started, mon, done, stack, fr, to, 
                             m, lg, sx, jx, ch, lv, snap, ka, ca, gx, ex, nx, 
                             fx, bx, bc, tx, ta, tc, ft, act, sj, tk >>

cb_end_fs(self) == /\ pc[self] = "cb_end_fs"
                   /\ lv' = [lv EXCEPT ![self] = S(to[self]).nend - 1]
                   /\ st' = [st EXCEPT ![to[self].n][to[self].s].nend = S(to[self]).nend - 1]
                   /\ pc' = [pc EXCEPT ![self] = "cb_term"]
                   /\ UNCHANGED << ci, nd, sk, pi, fi, tasks, now, obs, script, 
                                   ntop, panicked, started, mon, done, stack, 
                                   fr, to, m, lg, sx, jx, ch, snap, ka, ca, gx, 
                                   ex, nx, fx, bx, bc, tx, ta, tc, ft, act, sj, 
                                   tk >>

cb_term(self) == /\ pc[self] = "cb_term"
                 /\ IF lv[self] = 0
                       THEN /\ /\ fr' = [fr EXCEPT ![self] = "S"]
                               /\ m' = [m EXCEPT ![self] = Msg("T")]
                               /\ stack' = [stack EXCEPT ![self] = << [ procedure |->  "Deliver",
                                                                        pc        |->  "CB5",
                                                                        lg        |->  lg[self],
                                                                        sx        |->  sx[self],
                                                                        jx        |->  jx[self],
                                                                        ch        |->  ch[self],
                                                                        lv        |->  lv[self],
                                                                        snap      |->  snap[self],
                                                                        fr        |->  fr[self],
                                                                        to        |->  to[self],
                                                                        m         |->  m[self] ] >>
                                                                    \o stack[self]]
                               /\ to' = [to EXCEPT ![self] = S(to[self]).sink]
                            /\ lg' = [lg EXCEPT ![self] = FALSE]
                            /\ sx' = [sx EXCEPT ![self] = 0]
                            /\ jx' = [jx EXCEPT ![self] = 0]
                            /\ ch' = [ch EXCEPT ![self] = ""]
                            /\ lv' = [lv EXCEPT ![self] = 0]
                            /\ snap' = [snap EXCEPT ![self] = <<>>]
                            /\ pc' = [pc EXCEPT ![self] = "DStart"]
                       ELSE /\ pc' = [pc EXCEPT ![self] = "CB5"]
                            /\ UNCHANGED << stack, fr, to, m, lg, sx, jx, ch, 
                                            lv, snap >>
                 /\ UNCHANGED << ci, st, nd, sk, pi, fi, tasks, now, obs, 
                                 script, ntop, panicked, started, mon, done, 
                                 ka, ca, gx, ex, nx, fx, bx, bc, tx, ta, tc, 
                                 ft, act, sj, tk >>

CB5(self) == /\ pc[self] = "CB5"
             /\ pc' = [pc EXCEPT ![self] = "Ret"]
             /\ UNCHANGED << ci, st, nd, sk, pi, fi, tasks, now, obs, script, 
                             ntop, panicked, started, mon, done, stack, fr, to, 
                             m, lg, sx, jx, ch, lv, snap, ka, ca, gx, ex, nx, 
                             fx, bx, bc, tx, ta, tc, ft, act, sj, tk >>

CB6(self) == /\ pc[self] = "CB6"
             /\ IF jx[self] <= Len(Ups(to[self].n))
                   THEN /\ pc' = [pc EXCEPT ![self] = "cb_sib_ld"]
                   ELSE /\ pc' = [pc EXCEPT ![self] = "Ret"]
             /\ UNCHANGED << ci, st, nd, sk, pi, fi, tasks, now, obs, script, 
                             ntop, panicked, started, mon, done, stack, fr, to, 
                             m, lg, sx, jx, ch, lv, snap, ka, ca, gx, ex, nx, 
                             fx, bx, bc, tx, ta, tc, ft, act, sj, tk >>

cb_sib_ld(self) == /\ pc[self] = "cb_sib_ld"
                   /\ IF S(to[self]).tbs[jx[self]] = NoRef
                         THEN /\ obs' = LogO(obs \o [q \in 1..OpenCount(obs, 1, 0) |-> RetEv(ThOf(self))],
                                             Ev("panic", ThOf(self), "", "", "", 0))
                              /\ panicked' = TRUE
                              /\ pc' = [pc EXCEPT ![self] = "Halt"]
                              /\ UNCHANGED << stack, fr, to, m, lg, sx, jx, ch, 
                                              lv, snap >>
                         ELSE /\ /\ fr' = [fr EXCEPT ![self] = "S"]
                                 /\ m' = [m EXCEPT ![self] = m[self]]
                                 /\ stack' = [stack EXCEPT ![self] = << [ procedure |->  "Deliver",
                                                                          pc        |->  "CB7",
                                                                          lg        |->  lg[self],
                                                                          sx        |->  sx[self],
                                                                          jx        |->  jx[self],
                                                                          ch        |->  ch[self],
                                                                          lv        |->  lv[self],
                                                                          snap      |->  snap[self],
                                                                          fr        |->  fr[self],
                                                                          to        |->  to[self],
                                                                          m         |->  m[self] ] >>
                                                                      \o stack[self]]
                                 /\ to' = [to EXCEPT ![self] = S(to[self]).tbs[jx[self]]]
                              /\ lg' = [lg EXCEPT ![self] = FALSE]
                              /\ sx' = [sx EXCEPT ![self] = 0]
                              /\ jx' = [jx EXCEPT ![self] = 0]
                              /\ ch' = [ch EXCEPT ![self] = ""]
                              /\ lv' = [lv EXCEPT ![self] = 0]
                              /\ snap' = [snap EXCEPT ![self] = <<>>]
                              /\ pc' = [pc EXCEPT ![self] = "DStart"]
                              /\ UNCHANGED << obs, panicked >>
                   /\ UNCHANGED << ci, st, nd, sk, pi, fi, tasks, now, script, 
                                   ntop, started, mon, done, ka, ca, gx, ex, 
                                   nx, fx, bx, bc, tx, ta, tc, ft, act, sj, tk >>

CB7(self) == /\ pc[self] = "CB7"
             /\ jx' = [jx EXCEPT ![self] = jx[self] + 1]
             /\ pc' = [pc EXCEPT ![self] = "CB6"]
             /\ UNCHANGED << ci, st, nd, sk, pi, fi, tasks, now, obs, script, 
                             ntop, panicked, started, mon, done, stack, fr, to, 
                             m, lg, sx, ch, lv, snap, ka, ca, gx, ex, nx, fx, 
                             bx, bc, tx, ta, tc, ft, act, sj, tk >>

FL1(self) == /\ pc[self] = "FL1"
             /\ /\ fr' = [fr EXCEPT ![self] = "S"]
                /\ m' = [m EXCEPT ![self] = MsgH(Ref(to[self].n, "up", sx[self], 0))]
                /\ stack' = [stack EXCEPT ![self] = << [ procedure |->  "Deliver",
                                                         pc        |->  "FL2",
                                                         lg        |->  lg[self],
                                                         sx        |->  sx[self],
                                                         jx        |->  jx[self],
                                                         ch        |->  ch[self],
                                                         lv        |->  lv[self],
                                                         snap      |->  snap[self],
                                                         fr        |->  fr[self],
                                                         to        |->  to[self],
                                                         m         |->  m[self] ] >>
                                                     \o stack[self]]
                /\ to' = [to EXCEPT ![self] = Ref(Ups(to[self].n)[1], "src", 0, 0)]
             /\ lg' = [lg EXCEPT ![self] = FALSE]
             /\ sx' = [sx EXCEPT ![self] = 0]
             /\ jx' = [jx EXCEPT ![self] = 0]
             /\ ch' = [ch EXCEPT ![self] = ""]
             /\ lv' = [lv EXCEPT ![self] = 0]
             /\ snap' = [snap EXCEPT ![self] = <<>>]
             /\ pc' = [pc EXCEPT ![self] = "DStart"]
             /\ UNCHANGED << ci, st, nd, sk, pi, fi, tasks, now, obs, script, 
                             ntop, panicked, started, mon, done, ka, ca, gx, 
                             ex, nx, fx, bx, bc, tx, ta, tc, ft, act, sj, tk >>

FL2(self) == /\ pc[self] = "FL2"
             /\ pc' = [pc EXCEPT ![self] = "Ret"]
             /\ UNCHANGED << ci, st, nd, sk, pi, fi, tasks, now, obs, script, 
                             ntop, panicked, started, mon, done, stack, fr, to, 
                             m, lg, sx, jx, ch, lv, snap, ka, ca, gx, ex, nx, 
                             fx, bx, bc, tx, ta, tc, ft, act, sj, tk >>

FL3(self) == /\ pc[self] = "FL3"
             /\ /\ fr' = [fr EXCEPT ![self] = "S"]
                /\ m' = [m EXCEPT ![self] = MsgH(Ref(to[self].n, "tb", to[self].s, 0))]
                /\ stack' = [stack EXCEPT ![self] = << [ procedure |->  "Deliver",
                                                         pc        |->  "FL4",
                                                         lg        |->  lg[self],
                                                         sx        |->  sx[self],
                                                         jx        |->  jx[self],
                                                         ch        |->  ch[self],
                                                         lv        |->  lv[self],
                                                         snap      |->  snap[self],
                                                         fr        |->  fr[self],
                                                         to        |->  to[self],
                                                         m         |->  m[self] ] >>
                                                     \o stack[self]]
                /\ to' = [to EXCEPT ![self] = S(to[self]).sink]
             /\ lg' = [lg EXCEPT ![self] = FALSE]
             /\ sx' = [sx EXCEPT ![self] = 0]
             /\ jx' = [jx EXCEPT ![self] = 0]
             /\ ch' = [ch EXCEPT ![self] = ""]
             /\ lv' = [lv EXCEPT ![self] = 0]
             /\ snap' = [snap EXCEPT ![self] = <<>>]
             /\ pc' = [pc EXCEPT ![self] = "DStart"]
             /\ UNCHANGED << ci, st, nd, sk, pi, fi, tasks, now, obs, script, 
                             ntop, panicked, started, mon, done, ka, ca, gx, 
                             ex, nx, fx, bx, bc, tx, ta, tc, ft, act, sj, tk >>

FL4(self) == /\ pc[self] = "FL4"
             /\ pc' = [pc EXCEPT ![self] = "Ret"]
             /\ UNCHANGED << ci, st, nd, sk, pi, fi, tasks, now, obs, script, 
                             ntop, panicked, started, mon, done, stack, fr, to, 
                             m, lg, sx, jx, ch, lv, snap, ka, ca, gx, ex, nx, 
                             fx, bx, bc, tx, ta, tc, ft, act, sj, tk >>

FL5a(self) == /\ pc[self] = "FL5a"
              /\ IF S(to[self]).itb # NoRef
                    THEN /\ /\ fr' = [fr EXCEPT ![self] = "S"]
                            /\ m' = [m EXCEPT ![self] = Msg("T")]
                            /\ stack' = [stack EXCEPT ![self] = << [ procedure |->  "Deliver",
                                                                     pc        |->  "FL5",
                                                                     lg        |->  lg[self],
                                                                     sx        |->  sx[self],
                                                                     jx        |->  jx[self],
                                                                     ch        |->  ch[self],
                                                                     lv        |->  lv[self],
                                                                     snap      |->  snap[self],
                                                                     fr        |->  fr[self],
                                                                     to        |->  to[self],
                                                                     m         |->  m[self] ] >>
                                                                 \o stack[self]]
                            /\ to' = [to EXCEPT ![self] = S(to[self]).itb]
                         /\ lg' = [lg EXCEPT ![self] = FALSE]
                         /\ sx' = [sx EXCEPT ![self] = 0]
                         /\ jx' = [jx EXCEPT ![self] = 0]
                         /\ ch' = [ch EXCEPT ![self] = ""]
                         /\ lv' = [lv EXCEPT ![self] = 0]
                         /\ snap' = [snap EXCEPT ![self] = <<>>]
                         /\ pc' = [pc EXCEPT ![self] = "DStart"]
                    ELSE /\ pc' = [pc EXCEPT ![self] = "FL5"]
                         /\ UNCHANGED << stack, fr, to, m, lg, sx, jx, ch, lv, 
                                         snap >>
              /\ UNCHANGED << ci, st, nd, sk, pi, fi, tasks, now, obs, script, 
                              ntop, panicked, started, mon, done, ka, ca, gx, 
                              ex, nx, fx, bx, bc, tx, ta, tc, ft, act, sj, tk >>

FL5(self) == /\ pc[self] = "FL5"
             /\ IF Kind(to[self].n) = "flatmap"
                   THEN /\ fi' = Append(fi, NewFi(Ref(to[self].n, "in", to[self].s, 0), GenList(Node(to[self].n).g, m[self].v), FALSE, 0, ""))
                        /\ /\ fr' = [fr EXCEPT ![self] = "S"]
                           /\ m' = [m EXCEPT ![self] = MsgH(Ref(0, "fitb", Len(fi'), 0))]
                           /\ stack' = [stack EXCEPT ![self] = << [ procedure |->  "Deliver",
                                                                    pc        |->  "FL6",
                                                                    lg        |->  lg[self],
                                                                    sx        |->  sx[self],
                                                                    jx        |->  jx[self],
                                                                    ch        |->  ch[self],
                                                                    lv        |->  lv[self],
                                                                    snap      |->  snap[self],
                                                                    fr        |->  fr[self],
                                                                    to        |->  to[self],
                                                                    m         |->  m[self] ] >>
                                                                \o stack[self]]
                           /\ to' = [to EXCEPT ![self] = Ref(to[self].n, "in", to[self].s, 0)]
                        /\ lg' = [lg EXCEPT ![self] = FALSE]
                        /\ sx' = [sx EXCEPT ![self] = 0]
                        /\ jx' = [jx EXCEPT ![self] = 0]
                        /\ ch' = [ch EXCEPT ![self] = ""]
                        /\ lv' = [lv EXCEPT ![self] = 0]
                        /\ snap' = [snap EXCEPT ![self] = <<>>]
                        /\ pc' = [pc EXCEPT ![self] = "DStart"]
                   ELSE /\ /\ fr' = [fr EXCEPT ![self] = "S"]
                           /\ m' = [m EXCEPT ![self] = MsgH(Ref(to[self].n, "in", to[self].s, 0))]
                           /\ stack' = [stack EXCEPT ![self] = << [ procedure |->  "Deliver",
                                                                    pc        |->  "FL6",
                                                                    lg        |->  lg[self],
                                                                    sx        |->  sx[self],
                                                                    jx        |->  jx[self],
                                                                    ch        |->  ch[self],
                                                                    lv        |->  lv[self],
                                                                    snap      |->  snap[self],
                                                                    fr        |->  fr[self],
                                                                    to        |->  to[self],
                                                                    m         |->  m[self] ] >>
                                                                \o stack[self]]
                           /\ to' = [to EXCEPT ![self] = Ref(NodeOfPid(m[self].v), "src", 0, 0)]
                        /\ lg' = [lg EXCEPT ![self] = FALSE]
                        /\ sx' = [sx EXCEPT ![self] = 0]
                        /\ jx' = [jx EXCEPT ![self] = 0]
                        /\ ch' = [ch EXCEPT ![self] = ""]
                        /\ lv' = [lv EXCEPT ![self] = 0]
                        /\ snap' = [snap EXCEPT ![self] = <<>>]
                        /\ pc' = [pc EXCEPT ![self] = "DStart"]
                        /\ fi' = fi
             /\ UNCHANGED << ci, st, nd, sk, pi, tasks, now, obs, script, ntop, 
                             panicked, started, mon, done, ka, ca, gx, ex, nx, 
                             fx, bx, bc, tx, ta, tc, ft, act, sj, tk >>

FL6(self) == /\ pc[self] = "FL6"
             /\ pc' = [pc EXCEPT ![self] = "Ret"]
             /\ UNCHANGED << ci, st, nd, sk, pi, fi, tasks, now, obs, script, 
                             ntop, panicked, started, mon, done, stack, fr, to, 
                             m, lg, sx, jx, ch, lv, snap, ka, ca, gx, ex, nx, 
                             fx, bx, bc, tx, ta, tc, ft, act, sj, tk >>

FL7(self) == /\ pc[self] = "FL7"
             /\ /\ fr' = [fr EXCEPT ![self] = "S"]
                /\ m' = [m EXCEPT ![self] = m[self]]
                /\ stack' = [stack EXCEPT ![self] = << [ procedure |->  "Deliver",
                                                         pc        |->  "FL8",
                                                         lg        |->  lg[self],
                                                         sx        |->  sx[self],
                                                         jx        |->  jx[self],
                                                         ch        |->  ch[self],
                                                         lv        |->  lv[self],
                                                         snap      |->  snap[self],
                                                         fr        |->  fr[self],
                                                         to        |->  to[self],
                                                         m         |->  m[self] ] >>
                                                     \o stack[self]]
                /\ to' = [to EXCEPT ![self] = S(to[self]).sink]
             /\ lg' = [lg EXCEPT ![self] = FALSE]
             /\ sx' = [sx EXCEPT ![self] = 0]
             /\ jx' = [jx EXCEPT ![self] = 0]
             /\ ch' = [ch EXCEPT ![self] = ""]
             /\ lv' = [lv EXCEPT ![self] = 0]
             /\ snap' = [snap EXCEPT ![self] = <<>>]
             /\ pc' = [pc EXCEPT ![self] = "DStart"]
             /\ UNCHANGED << ci, st, nd, sk, pi, fi, tasks, now, obs, script, 
                             ntop, panicked, started, mon, done, ka, ca, gx, 
                             ex, nx, fx, bx, bc, tx, ta, tc, ft, act, sj, tk >>

FL8(self) == /\ pc[self] = "FL8"
             /\ pc' = [pc EXCEPT ![self] = "Ret"]
             /\ UNCHANGED << ci, st, nd, sk, pi, fi, tasks, now, obs, script, 
                             ntop, panicked, started, mon, done, stack, fr, to, 
                             m, lg, sx, jx, ch, lv, snap, ka, ca, gx, ex, nx, 
                             fx, bx, bc, tx, ta, tc, ft, act, sj, tk >>

FL9(self) == /\ pc[self] = "FL9"
             /\ pc' = [pc EXCEPT ![self] = "Ret"]
             /\ UNCHANGED << ci, st, nd, sk, pi, fi, tasks, now, obs, script, 
                             ntop, panicked, started, mon, done, stack, fr, to, 
                             m, lg, sx, jx, ch, lv, snap, ka, ca, gx, ex, nx, 
                             fx, bx, bc, tx, ta, tc, ft, act, sj, tk >>

FL10(self) == /\ pc[self] = "FL10"
              /\ /\ fr' = [fr EXCEPT ![self] = "S"]
                 /\ m' = [m EXCEPT ![self] = Msg("P")]
                 /\ stack' = [stack EXCEPT ![self] = << [ procedure |->  "Deliver",
                                                          pc        |->  "FL11",
                                                          lg        |->  lg[self],
                                                          sx        |->  sx[self],
                                                          jx        |->  jx[self],
                                                          ch        |->  ch[self],
                                                          lv        |->  lv[self],
                                                          snap      |->  snap[self],
                                                          fr        |->  fr[self],
                                                          to        |->  to[self],
                                                          m         |->  m[self] ] >>
                                                      \o stack[self]]
                 /\ to' = [to EXCEPT ![self] = S(to[self]).itb]
              /\ lg' = [lg EXCEPT ![self] = FALSE]
              /\ sx' = [sx EXCEPT ![self] = 0]
              /\ jx' = [jx EXCEPT ![self] = 0]
              /\ ch' = [ch EXCEPT ![self] = ""]
              /\ lv' = [lv EXCEPT ![self] = 0]
              /\ snap' = [snap EXCEPT ![self] = <<>>]
              /\ pc' = [pc EXCEPT ![self] = "DStart"]
              /\ UNCHANGED << ci, st, nd, sk, pi, fi, tasks, now, obs, script, 
                              ntop, panicked, started, mon, done, ka, ca, gx, 
                              ex, nx, fx, bx, bc, tx, ta, tc, ft, act, sj, tk >>

FL11(self) == /\ pc[self] = "FL11"
              /\ pc' = [pc EXCEPT ![self] = "Ret"]
              /\ UNCHANGED << ci, st, nd, sk, pi, fi, tasks, now, obs, script, 
                              ntop, panicked, started, mon, done, stack, fr, 
                              to, m, lg, sx, jx, ch, lv, snap, ka, ca, gx, ex, 
                              nx, fx, bx, bc, tx, ta, tc, ft, act, sj, tk >>

FL12(self) == /\ pc[self] = "FL12"
              /\ pc' = [pc EXCEPT ![self] = "Ret"]
              /\ UNCHANGED << ci, st, nd, sk, pi, fi, tasks, now, obs, script, 
                              ntop, panicked, started, mon, done, stack, fr, 
                              to, m, lg, sx, jx, ch, lv, snap, ka, ca, gx, ex, 
                              nx, fx, bx, bc, tx, ta, tc, ft, act, sj, tk >>

FL13(self) == /\ pc[self] = "FL13"
              /\ /\ fr' = [fr EXCEPT ![self] = "S"]
                 /\ m' = [m EXCEPT ![self] = m[self]]
                 /\ stack' = [stack EXCEPT ![self] = << [ procedure |->  "Deliver",
                                                          pc        |->  "FL14",
                                                          lg        |->  lg[self],
                                                          sx        |->  sx[self],
                                                          jx        |->  jx[self],
                                                          ch        |->  ch[self],
                                                          lv        |->  lv[self],
                                                          snap      |->  snap[self],
                                                          fr        |->  fr[self],
                                                          to        |->  to[self],
                                                          m         |->  m[self] ] >>
                                                      \o stack[self]]
                 /\ to' = [to EXCEPT ![self] = S(to[self]).sink]
              /\ lg' = [lg EXCEPT ![self] = FALSE]
              /\ sx' = [sx EXCEPT ![self] = 0]
              /\ jx' = [jx EXCEPT ![self] = 0]
              /\ ch' = [ch EXCEPT ![self] = ""]
              /\ lv' = [lv EXCEPT ![self] = 0]
              /\ snap' = [snap EXCEPT ![self] = <<>>]
              /\ pc' = [pc EXCEPT ![self] = "DStart"]
              /\ UNCHANGED << ci, st, nd, sk, pi, fi, tasks, now, obs, script, 
                              ntop, panicked, started, mon, done, ka, ca, gx, 
                              ex, nx, fx, bx, bc, tx, ta, tc, ft, act, sj, tk >>

FL14(self) == /\ pc[self] = "FL14"
              /\ pc' = [pc EXCEPT ![self] = "Ret"]
              /\ UNCHANGED << ci, st, nd, sk, pi, fi, tasks, now, obs, script, 
                              ntop, panicked, started, mon, done, stack, fr, 
                              to, m, lg, sx, jx, ch, lv, snap, ka, ca, gx, ex, 
                              nx, fx, bx, bc, tx, ta, tc, ft, act, sj, tk >>

FL16(self) == /\ pc[self] = "FL16"
              /\ pc' = [pc EXCEPT ![self] = "Ret"]
              /\ UNCHANGED << ci, st, nd, sk, pi, fi, tasks, now, obs, script, 
                              ntop, panicked, started, mon, done, stack, fr, 
                              to, m, lg, sx, jx, ch, lv, snap, ka, ca, gx, ex, 
                              nx, fx, bx, bc, tx, ta, tc, ft, act, sj, tk >>

FL15(self) == /\ pc[self] = "FL15"
              /\ /\ fr' = [fr EXCEPT ![self] = "S"]
                 /\ m' = [m EXCEPT ![self] = Msg("P")]
                 /\ stack' = [stack EXCEPT ![self] = << [ procedure |->  "Deliver",
                                                          pc        |->  "FL16",
                                                          lg        |->  lg[self],
                                                          sx        |->  sx[self],
                                                          jx        |->  jx[self],
                                                          ch        |->  ch[self],
                                                          lv        |->  lv[self],
                                                          snap      |->  snap[self],
                                                          fr        |->  fr[self],
                                                          to        |->  to[self],
                                                          m         |->  m[self] ] >>
                                                      \o stack[self]]
                 /\ to' = [to EXCEPT ![self] = S(to[self]).otb]
              /\ lg' = [lg EXCEPT ![self] = FALSE]
              /\ sx' = [sx EXCEPT ![self] = 0]
              /\ jx' = [jx EXCEPT ![self] = 0]
              /\ ch' = [ch EXCEPT ![self] = ""]
              /\ lv' = [lv EXCEPT ![self] = 0]
              /\ snap' = [snap EXCEPT ![self] = <<>>]
              /\ pc' = [pc EXCEPT ![self] = "DStart"]
              /\ UNCHANGED << ci, st, nd, sk, pi, fi, tasks, now, obs, script, 
                              ntop, panicked, started, mon, done, ka, ca, gx, 
                              ex, nx, fx, bx, bc, tx, ta, tc, ft, act, sj, tk >>

FL17(self) == /\ pc[self] = "FL17"
              /\ pc' = [pc EXCEPT ![self] = "Ret"]
              /\ UNCHANGED << ci, st, nd, sk, pi, fi, tasks, now, obs, script, 
                              ntop, panicked, started, mon, done, stack, fr, 
                              to, m, lg, sx, jx, ch, lv, snap, ka, ca, gx, ex, 
                              nx, fx, bx, bc, tx, ta, tc, ft, act, sj, tk >>

FL18(self) == /\ pc[self] = "FL18"
              /\ IF S(to[self]).otb # NoRef
                    THEN /\ /\ fr' = [fr EXCEPT ![self] = "S"]
                            /\ m' = [m EXCEPT ![self] = Msg("T")]
                            /\ stack' = [stack EXCEPT ![self] = << [ procedure |->  "Deliver",
                                                                     pc        |->  "FL19",
                                                                     lg        |->  lg[self],
                                                                     sx        |->  sx[self],
                                                                     jx        |->  jx[self],
                                                                     ch        |->  ch[self],
                                                                     lv        |->  lv[self],
                                                                     snap      |->  snap[self],
                                                                     fr        |->  fr[self],
                                                                     to        |->  to[self],
                                                                     m         |->  m[self] ] >>
                                                                 \o stack[self]]
                            /\ to' = [to EXCEPT ![self] = S(to[self]).otb]
                         /\ lg' = [lg EXCEPT ![self] = FALSE]
                         /\ sx' = [sx EXCEPT ![self] = 0]
                         /\ jx' = [jx EXCEPT ![self] = 0]
                         /\ ch' = [ch EXCEPT ![self] = ""]
                         /\ lv' = [lv EXCEPT ![self] = 0]
                         /\ snap' = [snap EXCEPT ![self] = <<>>]
                         /\ pc' = [pc EXCEPT ![self] = "DStart"]
                    ELSE /\ pc' = [pc EXCEPT ![self] = "FL19"]
                         /\ UNCHANGED << stack, fr, to, m, lg, sx, jx, ch, lv, 
                                         snap >>
              /\ UNCHANGED << ci, st, nd, sk, pi, fi, tasks, now, obs, script, 
                              ntop, panicked, started, mon, done, ka, ca, gx, 
                              ex, nx, fx, bx, bc, tx, ta, tc, ft, act, sj, tk >>

FL19(self) == /\ pc[self] = "FL19"
              /\ pc' = [pc EXCEPT ![self] = "Ret"]
              /\ UNCHANGED << ci, st, nd, sk, pi, fi, tasks, now, obs, script, 
                              ntop, panicked, started, mon, done, stack, fr, 
                              to, m, lg, sx, jx, ch, lv, snap, ka, ca, gx, ex, 
                              nx, fx, bx, bc, tx, ta, tc, ft, act, sj, tk >>

SH1(self) == /\ pc[self] = "SH1"
             /\ IF Len(nd[to[self].n].sinks) = 1
                   THEN /\ /\ fr' = [fr EXCEPT ![self] = "S"]
                           /\ m' = [m EXCEPT ![self] = MsgH(Ref(to[self].n, "up", sx[self], 0))]
                           /\ stack' = [stack EXCEPT ![self] = << [ procedure |->  "Deliver",
                                                                    pc        |->  "SH2",
                                                                    lg        |->  lg[self],
                                                                    sx        |->  sx[self],
                                                                    jx        |->  jx[self],
                                                                    ch        |->  ch[self],
                                                                    lv        |->  lv[self],
                                                                    snap      |->  snap[self],
                                                                    fr        |->  fr[self],
                                                                    to        |->  to[self],
                                                                    m         |->  m[self] ] >>
                                                                \o stack[self]]
                           /\ to' = [to EXCEPT ![self] = Ref(Ups(to[self].n)[1], "src", 0, 0)]
                        /\ lg' = [lg EXCEPT ![self] = FALSE]
                        /\ sx' = [sx EXCEPT ![self] = 0]
                        /\ jx' = [jx EXCEPT ![self] = 0]
                        /\ ch' = [ch EXCEPT ![self] = ""]
                        /\ lv' = [lv EXCEPT ![self] = 0]
                        /\ snap' = [snap EXCEPT ![self] = <<>>]
                        /\ pc' = [pc EXCEPT ![self] = "DStart"]
                   ELSE /\ /\ fr' = [fr EXCEPT ![self] = "S"]
                           /\ m' = [m EXCEPT ![self] = MsgH(Ref(to[self].n, "tb", sx[self], 0))]
                           /\ stack' = [stack EXCEPT ![self] = << [ procedure |->  "Deliver",
                                                                    pc        |->  "SH2",
                                                                    lg        |->  lg[self],
                                                                    sx        |->  sx[self],
                                                                    jx        |->  jx[self],
                                                                    ch        |->  ch[self],
                                                                    lv        |->  lv[self],
                                                                    snap      |->  snap[self],
                                                                    fr        |->  fr[self],
                                                                    to        |->  to[self],
                                                                    m         |->  m[self] ] >>
                                                                \o stack[self]]
                           /\ to' = [to EXCEPT ![self] = m[self].tb]
                        /\ lg' = [lg EXCEPT ![self] = FALSE]
                        /\ sx' = [sx EXCEPT ![self] = 0]
                        /\ jx' = [jx EXCEPT ![self] = 0]
                        /\ ch' = [ch EXCEPT ![self] = ""]
                        /\ lv' = [lv EXCEPT ![self] = 0]
                        /\ snap' = [snap EXCEPT ![self] = <<>>]
                        /\ pc' = [pc EXCEPT ![self] = "DStart"]
             /\ UNCHANGED << ci, st, nd, sk, pi, fi, tasks, now, obs, script, 
                             ntop, panicked, started, mon, done, ka, ca, gx, 
                             ex, nx, fx, bx, bc, tx, ta, tc, ft, act, sj, tk >>

SH2(self) == /\ pc[self] = "SH2"
             /\ pc' = [pc EXCEPT ![self] = "Ret"]
             /\ UNCHANGED << ci, st, nd, sk, pi, fi, tasks, now, obs, script, 
                             ntop, panicked, started, mon, done, stack, fr, to, 
                             m, lg, sx, jx, ch, lv, snap, ka, ca, gx, ex, nx, 
                             fx, bx, bc, tx, ta, tc, ft, act, sj, tk >>

SH3(self) == /\ pc[self] = "SH3"
             /\ /\ fr' = [fr EXCEPT ![self] = "S"]
                /\ m' = [m EXCEPT ![self] = MsgH(Ref(to[self].n, "tb", to[self].s, 0))]
                /\ stack' = [stack EXCEPT ![self] = << [ procedure |->  "Deliver",
                                                         pc        |->  "SH4",
                                                         lg        |->  lg[self],
                                                         sx        |->  sx[self],
                                                         jx        |->  jx[self],
                                                         ch        |->  ch[self],
                                                         lv        |->  lv[self],
                                                         snap      |->  snap[self],
                                                         fr        |->  fr[self],
                                                         to        |->  to[self],
                                                         m         |->  m[self] ] >>
                                                     \o stack[self]]
                /\ to' = [to EXCEPT ![self] = S(to[self]).sink]
             /\ lg' = [lg EXCEPT ![self] = FALSE]
             /\ sx' = [sx EXCEPT ![self] = 0]
             /\ jx' = [jx EXCEPT ![self] = 0]
             /\ ch' = [ch EXCEPT ![self] = ""]
             /\ lv' = [lv EXCEPT ![self] = 0]
             /\ snap' = [snap EXCEPT ![self] = <<>>]
             /\ pc' = [pc EXCEPT ![self] = "DStart"]
             /\ UNCHANGED << ci, st, nd, sk, pi, fi, tasks, now, obs, script, 
                             ntop, panicked, started, mon, done, ka, ca, gx, 
                             ex, nx, fx, bx, bc, tx, ta, tc, ft, act, sj, tk >>

SH4(self) == /\ pc[self] = "SH4"
             /\ pc' = [pc EXCEPT ![self] = "Ret"]
             /\ UNCHANGED << ci, st, nd, sk, pi, fi, tasks, now, obs, script, 
                             ntop, panicked, started, mon, done, stack, fr, to, 
                             m, lg, sx, jx, ch, lv, snap, ka, ca, gx, ex, nx, 
                             fx, bx, bc, tx, ta, tc, ft, act, sj, tk >>

SH5(self) == /\ pc[self] = "SH5"
             /\ IF jx[self] <= Len(snap[self])
                   THEN /\ /\ fr' = [fr EXCEPT ![self] = "S"]
                           /\ m' = [m EXCEPT ![self] = m[self]]
                           /\ stack' = [stack EXCEPT ![self] = << [ procedure |->  "Deliver",
                                                                    pc        |->  "SH6",
                                                                    lg        |->  lg[self],
                                                                    sx        |->  sx[self],
                                                                    jx        |->  jx[self],
                                                                    ch        |->  ch[self],
                                                                    lv        |->  lv[self],
                                                                    snap      |->  snap[self],
                                                                    fr        |->  fr[self],
                                                                    to        |->  to[self],
                                                                    m         |->  m[self] ] >>
                                                                \o stack[self]]
                           /\ to' = [to EXCEPT ![self] = snap[self][jx[self]]]
                        /\ lg' = [lg EXCEPT ![self] = FALSE]
                        /\ sx' = [sx EXCEPT ![self] = 0]
                        /\ jx' = [jx EXCEPT ![self] = 0]
                        /\ ch' = [ch EXCEPT ![self] = ""]
                        /\ lv' = [lv EXCEPT ![self] = 0]
                        /\ snap' = [snap EXCEPT ![self] = <<>>]
                        /\ pc' = [pc EXCEPT ![self] = "DStart"]
                        /\ nd' = nd
                   ELSE /\ IF IsEnd(m[self])
                              THEN /\ nd' = [nd EXCEPT ![to[self].n].sinks = <<>>]
                              ELSE /\ TRUE
                                   /\ nd' = nd
                        /\ pc' = [pc EXCEPT ![self] = "SH7"]
                        /\ UNCHANGED << stack, fr, to, m, lg, sx, jx, ch, lv, 
                                        snap >>
             /\ UNCHANGED << ci, st, sk, pi, fi, tasks, now, obs, script, ntop, 
                             panicked, started, mon, done, ka, ca, gx, ex, nx, 
                             fx, bx, bc, tx, ta, tc, ft, act, sj, tk >>

SH6(self) == /\ pc[self] = "SH6"
             /\ jx' = [jx EXCEPT ![self] = jx[self] + 1]
             /\ pc' = [pc EXCEPT ![self] = "SH5"]
             /\ UNCHANGED << ci, st, nd, sk, pi, fi, tasks, now, obs, script, 
                             ntop, panicked, started, mon, done, stack, fr, to, 
                             m, lg, sx, ch, lv, snap, ka, ca, gx, ex, nx, fx, 
                             bx, bc, tx, ta, tc, ft, act, sj, tk >>

SH7(self) == /\ pc[self] = "SH7"
             /\ pc' = [pc EXCEPT ![self] = "Ret"]
             /\ UNCHANGED << ci, st, nd, sk, pi, fi, tasks, now, obs, script, 
                             ntop, panicked, started, mon, done, stack, fr, to, 
                             m, lg, sx, jx, ch, lv, snap, ka, ca, gx, ex, nx, 
                             fx, bx, bc, tx, ta, tc, ft, act, sj, tk >>

SH8(self) == /\ pc[self] = "SH8"
             /\ pc' = [pc EXCEPT ![self] = "Ret"]
             /\ UNCHANGED << ci, st, nd, sk, pi, fi, tasks, now, obs, script, 
                             ntop, panicked, started, mon, done, stack, fr, to, 
                             m, lg, sx, jx, ch, lv, snap, ka, ca, gx, ex, nx, 
                             fx, bx, bc, tx, ta, tc, ft, act, sj, tk >>

SH9(self) == /\ pc[self] = "SH9"
             /\ IF Len(nd[to[self].n].sinks) = 0
                   THEN /\ IF nd[to[self].n].utb = NoRef
                              THEN /\ obs' = LogO(obs \o [q \in 1..OpenCount(obs, 1, 0) |-> RetEv(ThOf(self))],
                                                  Ev("panic", ThOf(self), "", "", "", 0))
                                   /\ panicked' = TRUE
                                   /\ pc' = [pc EXCEPT ![self] = "Halt"]
                                   /\ UNCHANGED << stack, fr, to, m, lg, sx, 
                                                   jx, ch, lv, snap >>
                              ELSE /\ /\ fr' = [fr EXCEPT ![self] = "S"]
                                      /\ m' = [m EXCEPT ![self] = Msg("T")]
                                      /\ stack' = [stack EXCEPT ![self] = << [ procedure |->  "Deliver",
                                                                               pc        |->  "SH10",
                                                                               lg        |->  lg[self],
                                                                               sx        |->  sx[self],
                                                                               jx        |->  jx[self],
                                                                               ch        |->  ch[self],
                                                                               lv        |->  lv[self],
                                                                               snap      |->  snap[self],
                                                                               fr        |->  fr[self],
                                                                               to        |->  to[self],
                                                                               m         |->  m[self] ] >>
                                                                           \o stack[self]]
                                      /\ to' = [to EXCEPT ![self] = nd[to[self].n].utb]
                                   /\ lg' = [lg EXCEPT ![self] = FALSE]
                                   /\ sx' = [sx EXCEPT ![self] = 0]
                                   /\ jx' = [jx EXCEPT ![self] = 0]
                                   /\ ch' = [ch EXCEPT ![self] = ""]
                                   /\ lv' = [lv EXCEPT ![self] = 0]
                                   /\ snap' = [snap EXCEPT ![self] = <<>>]
                                   /\ pc' = [pc EXCEPT ![self] = "DStart"]
                                   /\ UNCHANGED << obs, panicked >>
                   ELSE /\ pc' = [pc EXCEPT ![self] = "SH10"]
                        /\ UNCHANGED << obs, panicked, stack, fr, to, m, lg, 
                                        sx, jx, ch, lv, snap >>
             /\ UNCHANGED << ci, st, nd, sk, pi, fi, tasks, now, script, ntop, 
                             started, mon, done, ka, ca, gx, ex, nx, fx, bx, 
                             bc, tx, ta, tc, ft, act, sj, tk >>

SH10(self) == /\ pc[self] = "SH10"
              /\ pc' = [pc EXCEPT ![self] = "Ret"]
              /\ UNCHANGED << ci, st, nd, sk, pi, fi, tasks, now, obs, script, 
                              ntop, panicked, started, mon, done, stack, fr, 
                              to, m, lg, sx, jx, ch, lv, snap, ka, ca, gx, ex, 
                              nx, fx, bx, bc, tx, ta, tc, ft, act, sj, tk >>

IV1(self) == /\ pc[self] = "IV1"
             /\ IF ch[self] = "ok"
                   THEN /\ /\ fr' = [fr EXCEPT ![self] = "S"]
                           /\ m' = [m EXCEPT ![self] = MsgH(Ref(to[self].n, "tb", sx[self], 0))]
                           /\ stack' = [stack EXCEPT ![self] = << [ procedure |->  "Deliver",
                                                                    pc        |->  "IV2",
                                                                    lg        |->  lg[self],
                                                                    sx        |->  sx[self],
                                                                    jx        |->  jx[self],
                                                                    ch        |->  ch[self],
                                                                    lv        |->  lv[self],
                                                                    snap      |->  snap[self],
                                                                    fr        |->  fr[self],
                                                                    to        |->  to[self],
                                                                    m         |->  m[self] ] >>
                                                                \o stack[self]]
                           /\ to' = [to EXCEPT ![self] = m[self].tb]
                        /\ lg' = [lg EXCEPT ![self] = FALSE]
                        /\ sx' = [sx EXCEPT ![self] = 0]
                        /\ jx' = [jx EXCEPT ![self] = 0]
                        /\ ch' = [ch EXCEPT ![self] = ""]
                        /\ lv' = [lv EXCEPT ![self] = 0]
                        /\ snap' = [snap EXCEPT ![self] = <<>>]
                        /\ pc' = [pc EXCEPT ![self] = "DStart"]
                   ELSE /\ /\ fr' = [fr EXCEPT ![self] = "S"]
                           /\ m' = [m EXCEPT ![self] = MsgE(IF ch[self] = "Spawn" THEN 700 ELSE 701)]
                           /\ stack' = [stack EXCEPT ![self] = << [ procedure |->  "Deliver",
                                                                    pc        |->  "IV2",
                                                                    lg        |->  lg[self],
                                                                    sx        |->  sx[self],
                                                                    jx        |->  jx[self],
                                                                    ch        |->  ch[self],
                                                                    lv        |->  lv[self],
                                                                    snap      |->  snap[self],
                                                                    fr        |->  fr[self],
                                                                    to        |->  to[self],
                                                                    m         |->  m[self] ] >>
                                                                \o stack[self]]
                           /\ to' = [to EXCEPT ![self] = m[self].tb]
                        /\ lg' = [lg EXCEPT ![self] = FALSE]
                        /\ sx' = [sx EXCEPT ![self] = 0]
                        /\ jx' = [jx EXCEPT ![self] = 0]
                        /\ ch' = [ch EXCEPT ![self] = ""]
                        /\ lv' = [lv EXCEPT ![self] = 0]
                        /\ snap' = [snap EXCEPT ![self] = <<>>]
                        /\ pc' = [pc EXCEPT ![self] = "DStart"]
             /\ UNCHANGED << ci, st, nd, sk, pi, fi, tasks, now, obs, script, 
                             ntop, panicked, started, mon, done, ka, ca, gx, 
                             ex, nx, fx, bx, bc, tx, ta, tc, ft, act, sj, tk >>

IV2(self) == /\ pc[self] = "IV2"
             /\ pc' = [pc EXCEPT ![self] = "Ret"]
             /\ UNCHANGED << ci, st, nd, sk, pi, fi, tasks, now, obs, script, 
                             ntop, panicked, started, mon, done, stack, fr, to, 
                             m, lg, sx, jx, ch, lv, snap, ka, ca, gx, ex, nx, 
                             fx, bx, bc, tx, ta, tc, ft, act, sj, tk >>

Ret(self) == /\ pc[self] = "Ret"
             /\ IF lg[self]
                   THEN /\ obs' = LogO(obs, RetEv(ThOf(self)))
                   ELSE /\ TRUE
                        /\ obs' = obs
             /\ pc' = [pc EXCEPT ![self] = Head(stack[self]).pc]
             /\ lg' = [lg EXCEPT ![self] = Head(stack[self]).lg]
             /\ sx' = [sx EXCEPT ![self] = Head(stack[self]).sx]
             /\ jx' = [jx EXCEPT ![self] = Head(stack[self]).jx]
             /\ ch' = [ch EXCEPT ![self] = Head(stack[self]).ch]
             /\ lv' = [lv EXCEPT ![self] = Head(stack[self]).lv]
             /\ snap' = [snap EXCEPT ![self] = Head(stack[self]).snap]
             /\ fr' = [fr EXCEPT ![self] = Head(stack[self]).fr]
             /\ to' = [to EXCEPT ![self] = Head(stack[self]).to]
             /\ m' = [m EXCEPT ![self] = Head(stack[self]).m]
             /\ stack' = [stack EXCEPT ![self] = Tail(stack[self])]
             /\ UNCHANGED << ci, st, nd, sk, pi, fi, tasks, now, script, ntop, 
                             panicked, started, mon, done, ka, ca, gx, ex, nx, 
                             fx, bx, bc, tx, ta, tc, ft, act, sj, tk >>

Halt(self) == /\ pc[self] = "Halt"
              /\ FALSE
              /\ pc' = [pc EXCEPT ![self] = "Error"]
              /\ UNCHANGED << ci, st, nd, sk, pi, fi, tasks, now, obs, script, 
                              ntop, panicked, started, mon, done, stack, fr, 
                              to, m, lg, sx, jx, ch, lv, snap, ka, ca, gx, ex, 
                              nx, fx, bx, bc, tx, ta, tc, ft, act, sj, tk >>

Deliver(self) == DStart(self) \/ DDisp(self) \/ K1(self) \/ K1a(self)
                    \/ K2(self) \/ K2a(self) \/ K2b(self) \/ K2c(self)
                    \/ K3(self) \/ P1(self) \/ P2(self) \/ P3(self)
                    \/ T1(self) \/ T1a(self) \/ T2(self) \/ FE1(self)
                    \/ FE2(self) \/ FE3(self) \/ FE4(self) \/ FR1(self)
                    \/ FR2(self) \/ FR3(self) \/ FR4(self) \/ FR5(self)
                    \/ FR6(self) \/ FR7(self) \/ FR8(self) \/ FR9(self)
                    \/ MP1(self) \/ MP2(self) \/ MP3(self) \/ MP4(self)
                    \/ MP5(self) \/ MP6(self) \/ MP7(self) \/ MP8(self)
                    \/ FI1(self) \/ FI2(self) \/ FI3(self) \/ FI4(self)
                    \/ FI5(self) \/ FI6(self) \/ FI7(self) \/ FI8(self)
                    \/ SC1(self) \/ SC2(self) \/ SC3(self) \/ SC4(self)
                    \/ SC5(self) \/ SC6(self) \/ SC7(self) \/ SC8(self)
                    \/ TK1(self) \/ TK2(self) \/ TK3(self) \/ TK4(self)
                    \/ tk_taken_fu(self) \/ tk_data(self) \/ tk_max(self)
                    \/ tk_end_ld(self) \/ tk_end_st(self) \/ tk_up_ld(self)
                    \/ tk_up_term(self) \/ tk_sink_term(self) \/ TK5(self)
                    \/ tk_src_end_st(self) \/ TK6a(self) \/ TK6(self)
                    \/ TK7(self) \/ TK8(self) \/ TK9(self) \/ SK1(self)
                    \/ SK2(self) \/ SK3(self) \/ SK4(self) \/ SK6(self)
                    \/ SK5(self) \/ SK7(self) \/ SK8(self) \/ MG1(self)
                    \/ MG2(self) \/ MG8a(self) \/ MG8(self) \/ MG9(self)
                    \/ mg_pl_ended_ld(self) \/ mg_late_ld(self)
                    \/ mg_late_ret(self) \/ mg_tb_st(self)
                    \/ mg_start_fa(self) \/ mg_greet(self) \/ MG3(self)
                    \/ mg_data(self) \/ MG4(self) \/ mg_ended_st(self)
                    \/ mg_sib_ld(self) \/ MG5(self) \/ mg_sib_term(self)
                    \/ mg_err(self) \/ MG6(self) \/ mg_tb_clr(self)
                    \/ mg_end_fa(self) \/ mg_term(self) \/ MG7(self)
                    \/ mg_tk_ended_st(self) \/ CCNext(self) \/ CC7(self)
                    \/ CC0(self) \/ CC0b(self) \/ CC0c(self) \/ CC1(self)
                    \/ CC2(self) \/ CC3(self) \/ CC4(self) \/ CC5(self)
                    \/ CC6(self) \/ CB1(self) \/ CB2(self)
                    \/ cb_tb_st(self) \/ cb_start_fs(self)
                    \/ cb_greet(self) \/ CB3(self) \/ cb_vals_ld(self)
                    \/ cb_rcu_ld(self) \/ cb_rcu_cas(self)
                    \/ cb_ndata(self) \/ cb_ndata_fs(self)
                    \/ cb_ndata_ld(self) \/ cb_emit(self)
                    \/ cb_emit_ld(self) \/ cb_data(self) \/ CB4(self)
                    \/ cb_end_fs(self) \/ cb_term(self) \/ CB5(self)
                    \/ CB6(self) \/ cb_sib_ld(self) \/ CB7(self)
                    \/ FL1(self) \/ FL2(self) \/ FL3(self) \/ FL4(self)
                    \/ FL5a(self) \/ FL5(self) \/ FL6(self) \/ FL7(self)
                    \/ FL8(self) \/ FL9(self) \/ FL10(self) \/ FL11(self)
                    \/ FL12(self) \/ FL13(self) \/ FL14(self) \/ FL16(self)
                    \/ FL15(self) \/ FL17(self) \/ FL18(self) \/ FL19(self)
                    \/ SH1(self) \/ SH2(self) \/ SH3(self) \/ SH4(self)
                    \/ SH5(self) \/ SH6(self) \/ SH7(self) \/ SH8(self)
                    \/ SH9(self) \/ SH10(self) \/ IV1(self) \/ IV2(self)
                    \/ Ret(self) \/ Halt(self)

SA0(self) == /\ pc[self] = "SA0"
             /\ IF ca[self] = "pull"
                   THEN /\ sk' = [sk EXCEPT ![ka[self]] = [sk[ka[self]] EXCEPT !.pulls = @ + 1, !.credit = 0]]
                        /\ /\ fr' = [fr EXCEPT ![self] = KName(ka[self])]
                           /\ m' = [m EXCEPT ![self] = Msg("P")]
                           /\ stack' = [stack EXCEPT ![self] = << [ procedure |->  "Deliver",
                                                                    pc        |->  "SA1",
                                                                    lg        |->  lg[self],
                                                                    sx        |->  sx[self],
                                                                    jx        |->  jx[self],
                                                                    ch        |->  ch[self],
                                                                    lv        |->  lv[self],
                                                                    snap      |->  snap[self],
                                                                    fr        |->  fr[self],
                                                                    to        |->  to[self],
                                                                    m         |->  m[self] ] >>
                                                                \o stack[self]]
                           /\ to' = [to EXCEPT ![self] = sk'[ka[self]].tb]
                        /\ lg' = [lg EXCEPT ![self] = FALSE]
                        /\ sx' = [sx EXCEPT ![self] = 0]
                        /\ jx' = [jx EXCEPT ![self] = 0]
                        /\ ch' = [ch EXCEPT ![self] = ""]
                        /\ lv' = [lv EXCEPT ![self] = 0]
                        /\ snap' = [snap EXCEPT ![self] = <<>>]
                        /\ pc' = [pc EXCEPT ![self] = "DStart"]
                        /\ UNCHANGED << obs, ntop, ka, ca, ex, nx, fx, tx, ta, 
                                        tc >>
                   ELSE /\ IF ca[self] = "term"
                              THEN /\ sk' = [sk EXCEPT ![ka[self]].disposed = TRUE]
                                   /\ /\ fr' = [fr EXCEPT ![self] = KName(ka[self])]
                                      /\ m' = [m EXCEPT ![self] = Msg("T")]
                                      /\ stack' = [stack EXCEPT ![self] = << [ procedure |->  "Deliver",
                                                                               pc        |->  "SA1",
                                                                               lg        |->  lg[self],
                                                                               sx        |->  sx[self],
                                                                               jx        |->  jx[self],
                                                                               ch        |->  ch[self],
                                                                               lv        |->  lv[self],
                                                                               snap      |->  snap[self],
                                                                               fr        |->  fr[self],
                                                                               to        |->  to[self],
                                                                               m         |->  m[self] ] >>
                                                                           \o stack[self]]
                                      /\ to' = [to EXCEPT ![self] = sk'[ka[self]].tb]
                                   /\ lg' = [lg EXCEPT ![self] = FALSE]
                                   /\ sx' = [sx EXCEPT ![self] = 0]
                                   /\ jx' = [jx EXCEPT ![self] = 0]
                                   /\ ch' = [ch EXCEPT ![self] = ""]
                                   /\ lv' = [lv EXCEPT ![self] = 0]
                                   /\ snap' = [snap EXCEPT ![self] = <<>>]
                                   /\ pc' = [pc EXCEPT ![self] = "DStart"]
                                   /\ UNCHANGED << obs, ntop, ka, ca, ex, nx, 
                                                   fx, tx, ta, tc >>
                              ELSE /\ IF ca[self] = "err"
                                         THEN /\ sk' = [sk EXCEPT ![ka[self]].disposed = TRUE]
                                              /\ /\ fr' = [fr EXCEPT ![self] = KName(ka[self])]
                                                 /\ m' = [m EXCEPT ![self] = MsgE(800 + ka[self])]
                                                 /\ stack' = [stack EXCEPT ![self] = << [ procedure |->  "Deliver",
                                                                                          pc        |->  "SA1",
                                                                                          lg        |->  lg[self],
                                                                                          sx        |->  sx[self],
                                                                                          jx        |->  jx[self],
                                                                                          ch        |->  ch[self],
                                                                                          lv        |->  lv[self],
                                                                                          snap      |->  snap[self],
                                                                                          fr        |->  fr[self],
                                                                                          to        |->  to[self],
                                                                                          m         |->  m[self] ] >>
                                                                                      \o stack[self]]
                                                 /\ to' = [to EXCEPT ![self] = sk'[ka[self]].tb]
                                              /\ lg' = [lg EXCEPT ![self] = FALSE]
                                              /\ sx' = [sx EXCEPT ![self] = 0]
                                              /\ jx' = [jx EXCEPT ![self] = 0]
                                              /\ ch' = [ch EXCEPT ![self] = ""]
                                              /\ lv' = [lv EXCEPT ![self] = 0]
                                              /\ snap' = [snap EXCEPT ![self] = <<>>]
                                              /\ pc' = [pc EXCEPT ![self] = "DStart"]
                                              /\ UNCHANGED << obs, ntop, ka, 
                                                              ca, ex, nx, fx, 
                                                              tx, ta, tc >>
                                         ELSE /\ IF \E ix \in 1..Len(pi) : ca[self] = "kick " \o IName(ix)
                                                    THEN /\ /\ ex' = [ex EXCEPT ![self] = CHOOSE ix \in 1..Len(pi) : ca[self] = "kick " \o IName(ix)]
                                                            /\ stack' = [stack EXCEPT ![self] = << [ procedure |->  "Emit",
                                                                                                     pc        |->  "SA1",
                                                                                                     ex        |->  ex[self] ] >>
                                                                                                 \o stack[self]]
                                                         /\ pc' = [pc EXCEPT ![self] = "E0"]
                                                         /\ UNCHANGED << sk, 
                                                                         obs, 
                                                                         ntop, 
                                                                         fr, 
                                                                         to, m, 
                                                                         lg, 
                                                                         sx, 
                                                                         jx, 
                                                                         ch, 
                                                                         lv, 
                                                                         snap, 
                                                                         ka, 
                                                                         ca, 
                                                                         nx, 
                                                                         fx, 
                                                                         tx, 
                                                                         ta, 
                                                                         tc >>
                                                    ELSE /\ IF \E ix \in 1..Len(pi) : ca[self] = "kickgreet " \o IName(ix)
                                                               THEN /\ /\ stack' = [stack EXCEPT ![self] = << [ procedure |->  "PupTop",
                                                                                                                pc        |->  "SA1",
                                                                                                                tc        |->  tc[self],
                                                                                                                tx        |->  tx[self],
                                                                                                                ta        |->  ta[self] ] >>
                                                                                                            \o stack[self]]
                                                                       /\ ta' = [ta EXCEPT ![self] = "greet"]
                                                                       /\ tx' = [tx EXCEPT ![self] = CHOOSE ix \in 1..Len(pi) : ca[self] = "kickgreet " \o IName(ix)]
                                                                    /\ tc' = [tc EXCEPT ![self] = ""]
                                                                    /\ pc' = [pc EXCEPT ![self] = "PT0"]
                                                                    /\ UNCHANGED << sk, 
                                                                                    obs, 
                                                                                    ntop, 
                                                                                    fr, 
                                                                                    to, 
                                                                                    m, 
                                                                                    lg, 
                                                                                    sx, 
                                                                                    jx, 
                                                                                    ch, 
                                                                                    lv, 
                                                                                    snap, 
                                                                                    ka, 
                                                                                    ca, 
                                                                                    nx, 
                                                                                    fx >>
                                                               ELSE /\ IF \E ix \in 1..Len(pi) : ca[self] = "kickend " \o IName(ix)
                                                                          THEN /\ /\ nx' = [nx EXCEPT ![self] = CHOOSE ix \in 1..Len(pi) : ca[self] = "kickend " \o IName(ix)]
                                                                                  /\ stack' = [stack EXCEPT ![self] = << [ procedure |->  "EndP",
                                                                                                                           pc        |->  "SA1",
                                                                                                                           nx        |->  nx[self] ] >>
                                                                                                                       \o stack[self]]
                                                                               /\ pc' = [pc EXCEPT ![self] = "N0"]
                                                                               /\ UNCHANGED << sk, 
                                                                                               obs, 
                                                                                               ntop, 
                                                                                               fr, 
                                                                                               to, 
                                                                                               m, 
                                                                                               lg, 
                                                                                               sx, 
                                                                                               jx, 
                                                                                               ch, 
                                                                                               lv, 
                                                                                               snap, 
                                                                                               ka, 
                                                                                               ca, 
                                                                                               fx >>
                                                                          ELSE /\ IF \E ix \in 1..Len(pi) : ca[self] = "kickfail " \o IName(ix)
                                                                                     THEN /\ /\ fx' = [fx EXCEPT ![self] = CHOOSE ix \in 1..Len(pi) : ca[self] = "kickfail " \o IName(ix)]
                                                                                             /\ stack' = [stack EXCEPT ![self] = << [ procedure |->  "FailP",
                                                                                                                                      pc        |->  "SA1",
                                                                                                                                      fx        |->  fx[self] ] >>
                                                                                                                                  \o stack[self]]
                                                                                          /\ pc' = [pc EXCEPT ![self] = "F0"]
                                                                                          /\ UNCHANGED << sk, 
                                                                                                          obs, 
                                                                                                          ntop, 
                                                                                                          fr, 
                                                                                                          to, 
                                                                                                          m, 
                                                                                                          lg, 
                                                                                                          sx, 
                                                                                                          jx, 
                                                                                                          ch, 
                                                                                                          lv, 
                                                                                                          snap, 
                                                                                                          ka, 
                                                                                                          ca >>
                                                                                     ELSE /\ IF \E j \in 1..NSinks : \E a \in {"attach", "pull", "term"} : ca[self] = "x " \o a \o " " \o KName(j)
                                                                                                THEN /\ ntop' = ntop + 1
                                                                                                     /\ \E j \in {q \in 1..NSinks : \E a \in {"attach", "pull", "term"} : ca[self] = "x " \o a \o " " \o KName(q)}:
                                                                                                          \E a \in {b \in {"attach", "pull", "term"} : ca[self] = "x " \o b \o " " \o KName(j)}:
                                                                                                            /\ obs' = LogO(obs, Ev("top", 0, "", KName(j), a, 0))
                                                                                                            /\ IF a = "attach"
                                                                                                                  THEN /\ sk' = [sk EXCEPT ![j].attached = TRUE]
                                                                                                                       /\ /\ fr' = [fr EXCEPT ![self] = "S"]
                                                                                                                          /\ m' = [m EXCEPT ![self] = MsgH(Ref(0, "K", j, 0))]
                                                                                                                          /\ stack' = [stack EXCEPT ![self] = << [ procedure |->  "Deliver",
                                                                                                                                                                   pc        |->  "SA1",
                                                                                                                                                                   lg        |->  lg[self],
                                                                                                                                                                   sx        |->  sx[self],
                                                                                                                                                                   jx        |->  jx[self],
                                                                                                                                                                   ch        |->  ch[self],
                                                                                                                                                                   lv        |->  lv[self],
                                                                                                                                                                   snap      |->  snap[self],
                                                                                                                                                                   fr        |->  fr[self],
                                                                                                                                                                   to        |->  to[self],
                                                                                                                                                                   m         |->  m[self] ] >>
                                                                                                                                                               \o stack[self]]
                                                                                                                          /\ to' = [to EXCEPT ![self] = Ref(CFG.root, "src", 0, 0)]
                                                                                                                       /\ lg' = [lg EXCEPT ![self] = FALSE]
                                                                                                                       /\ sx' = [sx EXCEPT ![self] = 0]
                                                                                                                       /\ jx' = [jx EXCEPT ![self] = 0]
                                                                                                                       /\ ch' = [ch EXCEPT ![self] = ""]
                                                                                                                       /\ lv' = [lv EXCEPT ![self] = 0]
                                                                                                                       /\ snap' = [snap EXCEPT ![self] = <<>>]
                                                                                                                       /\ pc' = [pc EXCEPT ![self] = "DStart"]
                                                                                                                       /\ UNCHANGED << ka, 
                                                                                                                                       ca >>
                                                                                                                  ELSE /\ /\ ca' = [ca EXCEPT ![self] = a]
                                                                                                                          /\ ka' = [ka EXCEPT ![self] = j]
                                                                                                                          /\ stack' = [stack EXCEPT ![self] = << [ procedure |->  "SinkAct",
                                                                                                                                                                   pc        |->  "SA1",
                                                                                                                                                                   ka        |->  ka[self],
                                                                                                                                                                   ca        |->  ca[self] ] >>
                                                                                                                                                               \o stack[self]]
                                                                                                                       /\ pc' = [pc EXCEPT ![self] = "SA0"]
                                                                                                                       /\ UNCHANGED << sk, 
                                                                                                                                       fr, 
                                                                                                                                       to, 
                                                                                                                                       m, 
                                                                                                                                       lg, 
                                                                                                                                       sx, 
                                                                                                                                       jx, 
                                                                                                                                       ch, 
                                                                                                                                       lv, 
                                                                                                                                       snap >>
                                                                                                ELSE /\ pc' = [pc EXCEPT ![self] = "SA1"]
                                                                                                     /\ UNCHANGED << sk, 
                                                                                                                     obs, 
                                                                                                                     ntop, 
                                                                                                                     stack, 
                                                                                                                     fr, 
                                                                                                                     to, 
                                                                                                                     m, 
                                                                                                                     lg, 
                                                                                                                     sx, 
                                                                                                                     jx, 
                                                                                                                     ch, 
                                                                                                                     lv, 
                                                                                                                     snap, 
                                                                                                                     ka, 
                                                                                                                     ca >>
                                                                                          /\ fx' = fx
                                                                               /\ nx' = nx
                                                                    /\ UNCHANGED << tx, 
                                                                                    ta, 
                                                                                    tc >>
                                                         /\ ex' = ex
             /\ UNCHANGED << ci, st, nd, pi, fi, tasks, now, script, panicked, 
                             started, mon, done, gx, bx, bc, ft, act, sj, tk >>

SA1(self) == /\ pc[self] = "SA1"
             /\ pc' = [pc EXCEPT ![self] = Head(stack[self]).pc]
             /\ ka' = [ka EXCEPT ![self] = Head(stack[self]).ka]
             /\ ca' = [ca EXCEPT ![self] = Head(stack[self]).ca]
             /\ stack' = [stack EXCEPT ![self] = Tail(stack[self])]
             /\ UNCHANGED << ci, st, nd, sk, pi, fi, tasks, now, obs, script, 
                             ntop, panicked, started, mon, done, fr, to, m, lg, 
                             sx, jx, ch, lv, snap, gx, ex, nx, fx, bx, bc, tx, 
                             ta, tc, ft, act, sj, tk >>

SinkAct(self) == SA0(self) \/ SA1(self)

G0(self) == /\ pc[self] = "G0"
            /\ pi' = [pi EXCEPT ![gx[self]] = [pi[gx[self]] EXCEPT !.greeted = TRUE, !.pending = FALSE]]
            /\ /\ fr' = [fr EXCEPT ![self] = IName(gx[self])]
               /\ m' = [m EXCEPT ![self] = MsgH(Ref(pi'[gx[self]].node, "ptb", gx[self], 0))]
               /\ stack' = [stack EXCEPT ![self] = << [ procedure |->  "Deliver",
                                                        pc        |->  "G1",
                                                        lg        |->  lg[self],
                                                        sx        |->  sx[self],
                                                        jx        |->  jx[self],
                                                        ch        |->  ch[self],
                                                        lv        |->  lv[self],
                                                        snap      |->  snap[self],
                                                        fr        |->  fr[self],
                                                        to        |->  to[self],
                                                        m         |->  m[self] ] >>
                                                    \o stack[self]]
               /\ to' = [to EXCEPT ![self] = pi'[gx[self]].sink]
            /\ lg' = [lg EXCEPT ![self] = FALSE]
            /\ sx' = [sx EXCEPT ![self] = 0]
            /\ jx' = [jx EXCEPT ![self] = 0]
            /\ ch' = [ch EXCEPT ![self] = ""]
            /\ lv' = [lv EXCEPT ![self] = 0]
            /\ snap' = [snap EXCEPT ![self] = <<>>]
            /\ pc' = [pc EXCEPT ![self] = "DStart"]
            /\ UNCHANGED << ci, st, nd, sk, fi, tasks, now, obs, script, ntop, 
                            panicked, started, mon, done, ka, ca, gx, ex, nx, 
                            fx, bx, bc, tx, ta, tc, ft, act, sj, tk >>

G1(self) == /\ pc[self] = "G1"
            /\ pc' = [pc EXCEPT ![self] = Head(stack[self]).pc]
            /\ gx' = [gx EXCEPT ![self] = Head(stack[self]).gx]
            /\ stack' = [stack EXCEPT ![self] = Tail(stack[self])]
            /\ UNCHANGED << ci, st, nd, sk, pi, fi, tasks, now, obs, script, 
                            ntop, panicked, started, mon, done, fr, to, m, lg, 
                            sx, jx, ch, lv, snap, ka, ca, ex, nx, fx, bx, bc, 
                            tx, ta, tc, ft, act, sj, tk >>

Greet(self) == G0(self) \/ G1(self)

E0(self) == /\ pc[self] = "E0"
            /\ pi' = [pi EXCEPT ![ex[self]].sent = pi[ex[self]].sent + 1]
            /\ /\ fr' = [fr EXCEPT ![self] = IName(ex[self])]
               /\ m' = [m EXCEPT ![self] = MsgD(IF Kind(pi'[ex[self]].node) = "puppet_outer"
                                                THEN Node(Node(pi'[ex[self]].node).inner[((pi'[ex[self]].sent - 1) % Len(Node(pi'[ex[self]].node).inner)) + 1]).pid
                                                ELSE 10 * pi'[ex[self]].pup + pi'[ex[self]].sent)]
               /\ stack' = [stack EXCEPT ![self] = << [ procedure |->  "Deliver",
                                                        pc        |->  "E1",
                                                        lg        |->  lg[self],
                                                        sx        |->  sx[self],
                                                        jx        |->  jx[self],
                                                        ch        |->  ch[self],
                                                        lv        |->  lv[self],
                                                        snap      |->  snap[self],
                                                        fr        |->  fr[self],
                                                        to        |->  to[self],
                                                        m         |->  m[self] ] >>
                                                    \o stack[self]]
               /\ to' = [to EXCEPT ![self] = pi'[ex[self]].sink]
            /\ lg' = [lg EXCEPT ![self] = FALSE]
            /\ sx' = [sx EXCEPT ![self] = 0]
            /\ jx' = [jx EXCEPT ![self] = 0]
            /\ ch' = [ch EXCEPT ![self] = ""]
            /\ lv' = [lv EXCEPT ![self] = 0]
            /\ snap' = [snap EXCEPT ![self] = <<>>]
            /\ pc' = [pc EXCEPT ![self] = "DStart"]
            /\ UNCHANGED << ci, st, nd, sk, fi, tasks, now, obs, script, ntop, 
                            panicked, started, mon, done, ka, ca, gx, ex, nx, 
                            fx, bx, bc, tx, ta, tc, ft, act, sj, tk >>

E1(self) == /\ pc[self] = "E1"
            /\ pc' = [pc EXCEPT ![self] = Head(stack[self]).pc]
            /\ ex' = [ex EXCEPT ![self] = Head(stack[self]).ex]
            /\ stack' = [stack EXCEPT ![self] = Tail(stack[self])]
            /\ UNCHANGED << ci, st, nd, sk, pi, fi, tasks, now, obs, script, 
                            ntop, panicked, started, mon, done, fr, to, m, lg, 
                            sx, jx, ch, lv, snap, ka, ca, gx, nx, fx, bx, bc, 
                            tx, ta, tc, ft, act, sj, tk >>

Emit(self) == E0(self) \/ E1(self)

N0(self) == /\ pc[self] = "N0"
            /\ pi' = [pi EXCEPT ![nx[self]].ended = TRUE]
            /\ /\ fr' = [fr EXCEPT ![self] = IName(nx[self])]
               /\ m' = [m EXCEPT ![self] = Msg("T")]
               /\ stack' = [stack EXCEPT ![self] = << [ procedure |->  "Deliver",
                                                        pc        |->  "N1",
                                                        lg        |->  lg[self],
                                                        sx        |->  sx[self],
                                                        jx        |->  jx[self],
                                                        ch        |->  ch[self],
                                                        lv        |->  lv[self],
                                                        snap      |->  snap[self],
                                                        fr        |->  fr[self],
                                                        to        |->  to[self],
                                                        m         |->  m[self] ] >>
                                                    \o stack[self]]
               /\ to' = [to EXCEPT ![self] = pi'[nx[self]].sink]
            /\ lg' = [lg EXCEPT ![self] = FALSE]
            /\ sx' = [sx EXCEPT ![self] = 0]
            /\ jx' = [jx EXCEPT ![self] = 0]
            /\ ch' = [ch EXCEPT ![self] = ""]
            /\ lv' = [lv EXCEPT ![self] = 0]
            /\ snap' = [snap EXCEPT ![self] = <<>>]
            /\ pc' = [pc EXCEPT ![self] = "DStart"]
            /\ UNCHANGED << ci, st, nd, sk, fi, tasks, now, obs, script, ntop, 
                            panicked, started, mon, done, ka, ca, gx, ex, nx, 
                            fx, bx, bc, tx, ta, tc, ft, act, sj, tk >>

N1(self) == /\ pc[self] = "N1"
            /\ pc' = [pc EXCEPT ![self] = Head(stack[self]).pc]
            /\ nx' = [nx EXCEPT ![self] = Head(stack[self]).nx]
            /\ stack' = [stack EXCEPT ![self] = Tail(stack[self])]
            /\ UNCHANGED << ci, st, nd, sk, pi, fi, tasks, now, obs, script, 
                            ntop, panicked, started, mon, done, fr, to, m, lg, 
                            sx, jx, ch, lv, snap, ka, ca, gx, ex, fx, bx, bc, 
                            tx, ta, tc, ft, act, sj, tk >>

EndP(self) == N0(self) \/ N1(self)

F0(self) == /\ pc[self] = "F0"
            /\ pi' = [pi EXCEPT ![fx[self]].ended = TRUE]
            /\ /\ fr' = [fr EXCEPT ![self] = IName(fx[self])]
               /\ m' = [m EXCEPT ![self] = MsgE(900 + pi'[fx[self]].pup)]
               /\ stack' = [stack EXCEPT ![self] = << [ procedure |->  "Deliver",
                                                        pc        |->  "F1",
                                                        lg        |->  lg[self],
                                                        sx        |->  sx[self],
                                                        jx        |->  jx[self],
                                                        ch        |->  ch[self],
                                                        lv        |->  lv[self],
                                                        snap      |->  snap[self],
                                                        fr        |->  fr[self],
                                                        to        |->  to[self],
                                                        m         |->  m[self] ] >>
                                                    \o stack[self]]
               /\ to' = [to EXCEPT ![self] = pi'[fx[self]].sink]
            /\ lg' = [lg EXCEPT ![self] = FALSE]
            /\ sx' = [sx EXCEPT ![self] = 0]
            /\ jx' = [jx EXCEPT ![self] = 0]
            /\ ch' = [ch EXCEPT ![self] = ""]
            /\ lv' = [lv EXCEPT ![self] = 0]
            /\ snap' = [snap EXCEPT ![self] = <<>>]
            /\ pc' = [pc EXCEPT ![self] = "DStart"]
            /\ UNCHANGED << ci, st, nd, sk, fi, tasks, now, obs, script, ntop, 
                            panicked, started, mon, done, ka, ca, gx, ex, nx, 
                            fx, bx, bc, tx, ta, tc, ft, act, sj, tk >>

F1(self) == /\ pc[self] = "F1"
            /\ pc' = [pc EXCEPT ![self] = Head(stack[self]).pc]
            /\ fx' = [fx EXCEPT ![self] = Head(stack[self]).fx]
            /\ stack' = [stack EXCEPT ![self] = Tail(stack[self])]
            /\ UNCHANGED << ci, st, nd, sk, pi, fi, tasks, now, obs, script, 
                            ntop, panicked, started, mon, done, fr, to, m, lg, 
                            sx, jx, ch, lv, snap, ka, ca, gx, ex, nx, bx, bc, 
                            tx, ta, tc, ft, act, sj, tk >>

FailP(self) == F0(self) \/ F1(self)

B0(self) == /\ pc[self] = "B0"
            /\ IF PupLive(bx[self]) /\ PupMode(pi[bx[self]].pup) # "pull" /\ CFG.burst
                  THEN /\ \E c \in BurstOpts(bx[self]):
                            /\ script' = LogS(script, <<"burst", IName(bx[self]), c>>)
                            /\ bc' = [bc EXCEPT ![self] = c]
                       /\ pc' = [pc EXCEPT ![self] = "B1"]
                  ELSE /\ pc' = [pc EXCEPT ![self] = "B4"]
                       /\ UNCHANGED << script, bc >>
            /\ UNCHANGED << ci, st, nd, sk, pi, fi, tasks, now, obs, ntop, 
                            panicked, started, mon, done, stack, fr, to, m, lg, 
                            sx, jx, ch, lv, snap, ka, ca, gx, ex, nx, fx, bx, 
                            tx, ta, tc, ft, act, sj, tk >>

B1(self) == /\ pc[self] = "B1"
            /\ IF bc[self] = "data"
                  THEN /\ /\ ex' = [ex EXCEPT ![self] = bx[self]]
                          /\ stack' = [stack EXCEPT ![self] = << [ procedure |->  "Emit",
                                                                   pc        |->  "B0",
                                                                   ex        |->  ex[self] ] >>
                                                               \o stack[self]]
                       /\ pc' = [pc EXCEPT ![self] = "E0"]
                       /\ UNCHANGED << nx, fx, bx, bc >>
                  ELSE /\ IF bc[self] = "end"
                             THEN /\ /\ nx' = [nx EXCEPT ![self] = bx[self]]
                                     /\ stack' = [stack EXCEPT ![self] = << [ procedure |->  "EndP",
                                                                              pc        |->  "B2",
                                                                              nx        |->  nx[self] ] >>
                                                                          \o stack[self]]
                                  /\ pc' = [pc EXCEPT ![self] = "N0"]
                                  /\ UNCHANGED << fx, bx, bc >>
                             ELSE /\ IF bc[self] = "err"
                                        THEN /\ /\ fx' = [fx EXCEPT ![self] = bx[self]]
                                                /\ stack' = [stack EXCEPT ![self] = << [ procedure |->  "FailP",
                                                                                         pc        |->  "B3",
                                                                                         fx        |->  fx[self] ] >>
                                                                                     \o stack[self]]
                                             /\ pc' = [pc EXCEPT ![self] = "F0"]
                                             /\ UNCHANGED << bx, bc >>
                                        ELSE /\ pc' = [pc EXCEPT ![self] = Head(stack[self]).pc]
                                             /\ bc' = [bc EXCEPT ![self] = Head(stack[self]).bc]
                                             /\ bx' = [bx EXCEPT ![self] = Head(stack[self]).bx]
                                             /\ stack' = [stack EXCEPT ![self] = Tail(stack[self])]
                                             /\ fx' = fx
                                  /\ nx' = nx
                       /\ ex' = ex
            /\ UNCHANGED << ci, st, nd, sk, pi, fi, tasks, now, obs, script, 
                            ntop, panicked, started, mon, done, fr, to, m, lg, 
                            sx, jx, ch, lv, snap, ka, ca, gx, tx, ta, tc, ft, 
                            act, sj, tk >>

B2(self) == /\ pc[self] = "B2"
            /\ pc' = [pc EXCEPT ![self] = Head(stack[self]).pc]
            /\ bc' = [bc EXCEPT ![self] = Head(stack[self]).bc]
            /\ bx' = [bx EXCEPT ![self] = Head(stack[self]).bx]
            /\ stack' = [stack EXCEPT ![self] = Tail(stack[self])]
            /\ UNCHANGED << ci, st, nd, sk, pi, fi, tasks, now, obs, script, 
                            ntop, panicked, started, mon, done, fr, to, m, lg, 
                            sx, jx, ch, lv, snap, ka, ca, gx, ex, nx, fx, tx, 
                            ta, tc, ft, act, sj, tk >>

B3(self) == /\ pc[self] = "B3"
            /\ pc' = [pc EXCEPT ![self] = Head(stack[self]).pc]
            /\ bc' = [bc EXCEPT ![self] = Head(stack[self]).bc]
            /\ bx' = [bx EXCEPT ![self] = Head(stack[self]).bx]
            /\ stack' = [stack EXCEPT ![self] = Tail(stack[self])]
            /\ UNCHANGED << ci, st, nd, sk, pi, fi, tasks, now, obs, script, 
                            ntop, panicked, started, mon, done, fr, to, m, lg, 
                            sx, jx, ch, lv, snap, ka, ca, gx, ex, nx, fx, tx, 
                            ta, tc, ft, act, sj, tk >>

B4(self) == /\ pc[self] = "B4"
            /\ pc' = [pc EXCEPT ![self] = Head(stack[self]).pc]
            /\ bc' = [bc EXCEPT ![self] = Head(stack[self]).bc]
            /\ bx' = [bx EXCEPT ![self] = Head(stack[self]).bx]
            /\ stack' = [stack EXCEPT ![self] = Tail(stack[self])]
            /\ UNCHANGED << ci, st, nd, sk, pi, fi, tasks, now, obs, script, 
                            ntop, panicked, started, mon, done, fr, to, m, lg, 
                            sx, jx, ch, lv, snap, ka, ca, gx, ex, nx, fx, tx, 
                            ta, tc, ft, act, sj, tk >>

Burst(self) == B0(self) \/ B1(self) \/ B2(self) \/ B3(self) \/ B4(self)

PT0(self) == /\ pc[self] = "PT0"
             /\ IF ta[self] = "greet"
                   THEN /\ /\ gx' = [gx EXCEPT ![self] = tx[self]]
                           /\ stack' = [stack EXCEPT ![self] = << [ procedure |->  "Greet",
                                                                    pc        |->  "PT1",
                                                                    gx        |->  gx[self] ] >>
                                                                \o stack[self]]
                        /\ pc' = [pc EXCEPT ![self] = "G0"]
                        /\ UNCHANGED << pi, script, ex, nx, fx, tc >>
                   ELSE /\ IF ta[self] = "emit"
                              THEN /\ /\ ex' = [ex EXCEPT ![self] = tx[self]]
                                      /\ stack' = [stack EXCEPT ![self] = << [ procedure |->  "Emit",
                                                                               pc        |->  "PT3",
                                                                               ex        |->  ex[self] ] >>
                                                                           \o stack[self]]
                                   /\ pc' = [pc EXCEPT ![self] = "E0"]
                                   /\ UNCHANGED << pi, script, nx, fx, tc >>
                              ELSE /\ IF ta[self] = "end"
                                         THEN /\ /\ nx' = [nx EXCEPT ![self] = tx[self]]
                                                 /\ stack' = [stack EXCEPT ![self] = << [ procedure |->  "EndP",
                                                                                          pc        |->  "PT3",
                                                                                          nx        |->  nx[self] ] >>
                                                                                      \o stack[self]]
                                              /\ pc' = [pc EXCEPT ![self] = "N0"]
                                              /\ UNCHANGED << pi, script, fx, 
                                                              tc >>
                                         ELSE /\ IF ta[self] = "fail"
                                                    THEN /\ /\ fx' = [fx EXCEPT ![self] = tx[self]]
                                                            /\ stack' = [stack EXCEPT ![self] = << [ procedure |->  "FailP",
                                                                                                     pc        |->  "PT3",
                                                                                                     fx        |->  fx[self] ] >>
                                                                                                 \o stack[self]]
                                                         /\ pc' = [pc EXCEPT ![self] = "F0"]
                                                         /\ UNCHANGED << pi, 
                                                                         script, 
                                                                         tc >>
                                                    ELSE /\ IF ta[self] = "reply"
                                                               THEN /\ pi' = [pi EXCEPT ![tx[self]].deferred = pi[tx[self]].deferred - 1]
                                                                    /\ \E c \in AnswerOpts(tx[self]):
                                                                         /\ script' = LogS(script, <<"reply", IName(tx[self]), c>>)
                                                                         /\ tc' = [tc EXCEPT ![self] = c]
                                                                    /\ pc' = [pc EXCEPT ![self] = "PT2"]
                                                               ELSE /\ pc' = [pc EXCEPT ![self] = "PT3"]
                                                                    /\ UNCHANGED << pi, 
                                                                                    script, 
                                                                                    tc >>
                                                         /\ UNCHANGED << stack, 
                                                                         fx >>
                                              /\ nx' = nx
                                   /\ ex' = ex
                        /\ gx' = gx
             /\ UNCHANGED << ci, st, nd, sk, fi, tasks, now, obs, ntop, 
                             panicked, started, mon, done, fr, to, m, lg, sx, 
                             jx, ch, lv, snap, ka, ca, bx, bc, tx, ta, ft, act, 
                             sj, tk >>

PT1(self) == /\ pc[self] = "PT1"
             /\ /\ bx' = [bx EXCEPT ![self] = tx[self]]
                /\ stack' = [stack EXCEPT ![self] = << [ procedure |->  "Burst",
                                                         pc        |->  "PT3",
                                                         bc        |->  bc[self],
                                                         bx        |->  bx[self] ] >>
                                                     \o stack[self]]
             /\ bc' = [bc EXCEPT ![self] = ""]
             /\ pc' = [pc EXCEPT ![self] = "B0"]
             /\ UNCHANGED << ci, st, nd, sk, pi, fi, tasks, now, obs, script, 
                             ntop, panicked, started, mon, done, fr, to, m, lg, 
                             sx, jx, ch, lv, snap, ka, ca, gx, ex, nx, fx, tx, 
                             ta, tc, ft, act, sj, tk >>

PT2(self) == /\ pc[self] = "PT2"
             /\ IF tc[self] = "data"
                   THEN /\ /\ ex' = [ex EXCEPT ![self] = tx[self]]
                           /\ stack' = [stack EXCEPT ![self] = << [ procedure |->  "Emit",
                                                                    pc        |->  "PT3",
                                                                    ex        |->  ex[self] ] >>
                                                                \o stack[self]]
                        /\ pc' = [pc EXCEPT ![self] = "E0"]
                        /\ UNCHANGED << nx, fx >>
                   ELSE /\ IF tc[self] = "end"
                              THEN /\ /\ nx' = [nx EXCEPT ![self] = tx[self]]
                                      /\ stack' = [stack EXCEPT ![self] = << [ procedure |->  "EndP",
                                                                               pc        |->  "PT3",
                                                                               nx        |->  nx[self] ] >>
                                                                           \o stack[self]]
                                   /\ pc' = [pc EXCEPT ![self] = "N0"]
                                   /\ fx' = fx
                              ELSE /\ /\ fx' = [fx EXCEPT ![self] = tx[self]]
                                      /\ stack' = [stack EXCEPT ![self] = << [ procedure |->  "FailP",
                                                                               pc        |->  "PT3",
                                                                               fx        |->  fx[self] ] >>
                                                                           \o stack[self]]
                                   /\ pc' = [pc EXCEPT ![self] = "F0"]
                                   /\ nx' = nx
                        /\ ex' = ex
             /\ UNCHANGED << ci, st, nd, sk, pi, fi, tasks, now, obs, script, 
                             ntop, panicked, started, mon, done, fr, to, m, lg, 
                             sx, jx, ch, lv, snap, ka, ca, gx, bx, bc, tx, ta, 
                             tc, ft, act, sj, tk >>

PT3(self) == /\ pc[self] = "PT3"
             /\ pc' = [pc EXCEPT ![self] = Head(stack[self]).pc]
             /\ tc' = [tc EXCEPT ![self] = Head(stack[self]).tc]
             /\ tx' = [tx EXCEPT ![self] = Head(stack[self]).tx]
             /\ ta' = [ta EXCEPT ![self] = Head(stack[self]).ta]
             /\ stack' = [stack EXCEPT ![self] = Tail(stack[self])]
             /\ UNCHANGED << ci, st, nd, sk, pi, fi, tasks, now, obs, script, 
                             ntop, panicked, started, mon, done, fr, to, m, lg, 
                             sx, jx, ch, lv, snap, ka, ca, gx, ex, nx, fx, bx, 
                             bc, ft, act, sj, tk >>

PupTop(self) == PT0(self) \/ PT1(self) \/ PT2(self) \/ PT3(self)

FT0(self) == /\ pc[self] = "FT0"
             /\ now' = tasks[ft[self]].deadline
             /\ tasks' = [tasks EXCEPT ![ft[self]].armed = FALSE]
             /\ pc' = [pc EXCEPT ![self] = "FT1"]
             /\ UNCHANGED << ci, st, nd, sk, pi, fi, obs, script, ntop, 
                             panicked, started, mon, done, stack, fr, to, m, 
                             lg, sx, jx, ch, lv, snap, ka, ca, gx, ex, nx, fx, 
                             bx, bc, tx, ta, tc, ft, act, sj, tk >>

FT1(self) == /\ pc[self] = "FT1"
             /\ IF st[tasks[ft[self]].node][tasks[ft[self]].sub].cleared
                   THEN /\ tasks' = [tasks EXCEPT ![ft[self]].finished = TRUE]
                        /\ obs' = LogO(obs, Ev("taskdone", ThOf(self), "", TName(ft[self]), "", 0))
                        /\ pc' = [pc EXCEPT ![self] = Head(stack[self]).pc]
                        /\ ft' = [ft EXCEPT ![self] = Head(stack[self]).ft]
                        /\ stack' = [stack EXCEPT ![self] = Tail(stack[self])]
                        /\ UNCHANGED << st, fr, to, m, lg, sx, jx, ch, lv, 
                                        snap >>
                   ELSE /\ st' = [st EXCEPT ![tasks[ft[self]].node][tasks[ft[self]].sub].cnt = st[tasks[ft[self]].node][tasks[ft[self]].sub].cnt + 1]
                        /\ /\ fr' = [fr EXCEPT ![self] = "S"]
                           /\ m' = [m EXCEPT ![self] = MsgD(st'[tasks[ft[self]].node][tasks[ft[self]].sub].cnt - 1)]
                           /\ stack' = [stack EXCEPT ![self] = << [ procedure |->  "Deliver",
                                                                    pc        |->  "FT2",
                                                                    lg        |->  lg[self],
                                                                    sx        |->  sx[self],
                                                                    jx        |->  jx[self],
                                                                    ch        |->  ch[self],
                                                                    lv        |->  lv[self],
                                                                    snap      |->  snap[self],
                                                                    fr        |->  fr[self],
                                                                    to        |->  to[self],
                                                                    m         |->  m[self] ] >>
                                                                \o stack[self]]
                           /\ to' = [to EXCEPT ![self] = st'[tasks[ft[self]].node][tasks[ft[self]].sub].sink]
                        /\ lg' = [lg EXCEPT ![self] = FALSE]
                        /\ sx' = [sx EXCEPT ![self] = 0]
                        /\ jx' = [jx EXCEPT ![self] = 0]
                        /\ ch' = [ch EXCEPT ![self] = ""]
                        /\ lv' = [lv EXCEPT ![self] = 0]
                        /\ snap' = [snap EXCEPT ![self] = <<>>]
                        /\ pc' = [pc EXCEPT ![self] = "DStart"]
                        /\ UNCHANGED << tasks, obs, ft >>
             /\ UNCHANGED << ci, nd, sk, pi, fi, now, script, ntop, panicked, 
                             started, mon, done, ka, ca, gx, ex, nx, fx, bx, 
                             bc, tx, ta, tc, act, sj, tk >>

FT2(self) == /\ pc[self] = "FT2"
             /\ obs' = LogO(obs, Ev("sleep", ThOf(self), "", TName(ft[self]), "", Node(tasks[ft[self]].node).period))
             /\ tasks' = [tasks EXCEPT ![ft[self]] = [tasks[ft[self]] EXCEPT !.armed = TRUE, !.deadline = now + Node(tasks[ft[self]].node).period]]
             /\ pc' = [pc EXCEPT ![self] = Head(stack[self]).pc]
             /\ ft' = [ft EXCEPT ![self] = Head(stack[self]).ft]
             /\ stack' = [stack EXCEPT ![self] = Tail(stack[self])]
             /\ UNCHANGED << ci, st, nd, sk, pi, fi, now, script, ntop, 
                             panicked, started, mon, done, fr, to, m, lg, sx, 
                             jx, ch, lv, snap, ka, ca, gx, ex, nx, fx, bx, bc, 
                             tx, ta, tc, act, sj, tk >>

Fire(self) == FT0(self) \/ FT1(self) \/ FT2(self)

M0 == /\ pc[0] = "M0"
      /\ IF ntop < MaxTop /\ ~panicked
            THEN /\ \E a \in (IF IsThr THEN {} ELSE {<<"", "stop">>}) \cup EnabledTop:
                      /\ script' = LogS(script, <<"top", a[1], a[2]>>)
                      /\ act' = a
                 /\ pc' = [pc EXCEPT ![0] = "M1"]
            ELSE /\ pc' = [pc EXCEPT ![0] = "MDone"]
                 /\ UNCHANGED << script, act >>
      /\ UNCHANGED << ci, st, nd, sk, pi, fi, tasks, now, obs, ntop, panicked, 
                      started, mon, done, stack, fr, to, m, lg, sx, jx, ch, lv, 
                      snap, ka, ca, gx, ex, nx, fx, bx, bc, tx, ta, tc, ft, sj, 
                      tk >>

M1 == /\ pc[0] = "M1"
      /\ IF act[2] = "stop"
            THEN /\ pc' = [pc EXCEPT ![0] = "MDone"]
                 /\ UNCHANGED << obs, ntop >>
            ELSE /\ ntop' = ntop + 1
                 /\ obs' = LogO(obs, Ev("top", 0, "", act[1], act[2], 0))
                 /\ pc' = [pc EXCEPT ![0] = "M2"]
      /\ UNCHANGED << ci, st, nd, sk, pi, fi, tasks, now, script, panicked, 
                      started, mon, done, stack, fr, to, m, lg, sx, jx, ch, lv, 
                      snap, ka, ca, gx, ex, nx, fx, bx, bc, tx, ta, tc, ft, 
                      act, sj, tk >>

M2 == /\ pc[0] = "M2"
      /\ IF act[2] = "attach"
            THEN /\ sk' = [sk EXCEPT ![KOfName(act[1])].attached = TRUE]
                 /\ IF SinkKind(KOfName(act[1])) = "probe"
                       THEN /\ /\ fr' = [fr EXCEPT ![0] = "S"]
                               /\ m' = [m EXCEPT ![0] = MsgH(Ref(0, "K", KOfName(act[1]), 0))]
                               /\ stack' = [stack EXCEPT ![0] = << [ procedure |->  "Deliver",
                                                                     pc        |->  "M3",
                                                                     lg        |->  lg[0],
                                                                     sx        |->  sx[0],
                                                                     jx        |->  jx[0],
                                                                     ch        |->  ch[0],
                                                                     lv        |->  lv[0],
                                                                     snap      |->  snap[0],
                                                                     fr        |->  fr[0],
                                                                     to        |->  to[0],
                                                                     m         |->  m[0] ] >>
                                                                 \o stack[0]]
                               /\ to' = [to EXCEPT ![0] = Ref(CFG.root, "src", 0, 0)]
                            /\ lg' = [lg EXCEPT ![0] = FALSE]
                            /\ sx' = [sx EXCEPT ![0] = 0]
                            /\ jx' = [jx EXCEPT ![0] = 0]
                            /\ ch' = [ch EXCEPT ![0] = ""]
                            /\ lv' = [lv EXCEPT ![0] = 0]
                            /\ snap' = [snap EXCEPT ![0] = <<>>]
                            /\ pc' = [pc EXCEPT ![0] = "DStart"]
                       ELSE /\ /\ fr' = [fr EXCEPT ![0] = "S"]
                               /\ m' = [m EXCEPT ![0] = MsgH(Ref(0, "F", KOfName(act[1]), 0))]
                               /\ stack' = [stack EXCEPT ![0] = << [ procedure |->  "Deliver",
                                                                     pc        |->  "M3",
                                                                     lg        |->  lg[0],
                                                                     sx        |->  sx[0],
                                                                     jx        |->  jx[0],
                                                                     ch        |->  ch[0],
                                                                     lv        |->  lv[0],
                                                                     snap      |->  snap[0],
                                                                     fr        |->  fr[0],
                                                                     to        |->  to[0],
                                                                     m         |->  m[0] ] >>
                                                                 \o stack[0]]
                               /\ to' = [to EXCEPT ![0] = Ref(CFG.root, "src", 0, 0)]
                            /\ lg' = [lg EXCEPT ![0] = FALSE]
                            /\ sx' = [sx EXCEPT ![0] = 0]
                            /\ jx' = [jx EXCEPT ![0] = 0]
                            /\ ch' = [ch EXCEPT ![0] = ""]
                            /\ lv' = [lv EXCEPT ![0] = 0]
                            /\ snap' = [snap EXCEPT ![0] = <<>>]
                            /\ pc' = [pc EXCEPT ![0] = "DStart"]
                 /\ UNCHANGED << ka, ca, tx, ta, tc, ft >>
            ELSE /\ IF act[2] = "fire"
                       THEN /\ /\ ft' = [ft EXCEPT ![0] = TOfName(act[1])]
                               /\ stack' = [stack EXCEPT ![0] = << [ procedure |->  "Fire",
                                                                     pc        |->  "M3",
                                                                     ft        |->  ft[0] ] >>
                                                                 \o stack[0]]
                            /\ pc' = [pc EXCEPT ![0] = "FT0"]
                            /\ UNCHANGED << ka, ca, tx, ta, tc >>
                       ELSE /\ IF IsKName(act[1])
                                  THEN /\ /\ ca' = [ca EXCEPT ![0] = act[2]]
                                          /\ ka' = [ka EXCEPT ![0] = KOfName(act[1])]
                                          /\ stack' = [stack EXCEPT ![0] = << [ procedure |->  "SinkAct",
                                                                                pc        |->  "M3",
                                                                                ka        |->  ka[0],
                                                                                ca        |->  ca[0] ] >>
                                                                            \o stack[0]]
                                       /\ pc' = [pc EXCEPT ![0] = "SA0"]
                                       /\ UNCHANGED << tx, ta, tc >>
                                  ELSE /\ /\ stack' = [stack EXCEPT ![0] = << [ procedure |->  "PupTop",
                                                                                pc        |->  "M3",
                                                                                tc        |->  tc[0],
                                                                                tx        |->  tx[0],
                                                                                ta        |->  ta[0] ] >>
                                                                            \o stack[0]]
                                          /\ ta' = [ta EXCEPT ![0] = act[2]]
                                          /\ tx' = [tx EXCEPT ![0] = IxOfName(act[1])]
                                       /\ tc' = [tc EXCEPT ![0] = ""]
                                       /\ pc' = [pc EXCEPT ![0] = "PT0"]
                                       /\ UNCHANGED << ka, ca >>
                            /\ ft' = ft
                 /\ UNCHANGED << sk, fr, to, m, lg, sx, jx, ch, lv, snap >>
      /\ UNCHANGED << ci, st, nd, pi, fi, tasks, now, obs, script, ntop, 
                      panicked, started, mon, done, gx, ex, nx, fx, bx, bc, 
                      act, sj, tk >>

M3 == /\ pc[0] = "M3"
      /\ sj' = 1
      /\ pc' = [pc EXCEPT ![0] = "M4"]
      /\ UNCHANGED << ci, st, nd, sk, pi, fi, tasks, now, obs, script, ntop, 
                      panicked, started, mon, done, stack, fr, to, m, lg, sx, 
                      jx, ch, lv, snap, ka, ca, gx, ex, nx, fx, bx, bc, tx, ta, 
                      tc, ft, act, tk >>

M4 == /\ pc[0] = "M4"
      /\ IF sj <= Len(tasks)
            THEN /\ IF ~tasks[sj].started
                       THEN /\ obs' = LogO(obs, Ev("sleep", 0, "", TName(sj), "", Node(tasks[sj].node).period))
                            /\ tasks' = [tasks EXCEPT ![sj] = [tasks[sj] EXCEPT !.started = TRUE, !.armed = TRUE,
                                                                                !.deadline = now + Node(tasks[sj].node).period]]
                       ELSE /\ TRUE
                            /\ UNCHANGED << tasks, obs >>
                 /\ sj' = sj + 1
                 /\ pc' = [pc EXCEPT ![0] = "M4"]
            ELSE /\ pc' = [pc EXCEPT ![0] = "M0"]
                 /\ UNCHANGED << tasks, obs, sj >>
      /\ UNCHANGED << ci, st, nd, sk, pi, fi, now, script, ntop, panicked, 
                      started, mon, done, stack, fr, to, m, lg, sx, jx, ch, lv, 
                      snap, ka, ca, gx, ex, nx, fx, bx, bc, tx, ta, tc, ft, 
                      act, tk >>

MDone == /\ pc[0] = "MDone"
         /\ IF IsThr /\ ~panicked
               THEN /\ obs' = LogO(obs, Ev("top", 0, "", "", "threads", 0))
                    /\ started' = TRUE
                    /\ pc' = [pc EXCEPT ![0] = "MWait"]
               ELSE /\ pc' = [pc EXCEPT ![0] = "MFin"]
                    /\ UNCHANGED << obs, started >>
         /\ UNCHANGED << ci, st, nd, sk, pi, fi, tasks, now, script, ntop, 
                         panicked, mon, done, stack, fr, to, m, lg, sx, jx, ch, 
                         lv, snap, ka, ca, gx, ex, nx, fx, bx, bc, tx, ta, tc, 
                         ft, act, sj, tk >>

MWait == /\ pc[0] = "MWait"
         /\ \A t \in 1..Len(CFG.thr) : pc[t] = "Done"
         /\ pc' = [pc EXCEPT ![0] = "MFin"]
         /\ UNCHANGED << ci, st, nd, sk, pi, fi, tasks, now, obs, script, ntop, 
                         panicked, started, mon, done, stack, fr, to, m, lg, 
                         sx, jx, ch, lv, snap, ka, ca, gx, ex, nx, fx, bx, bc, 
                         tx, ta, tc, ft, act, sj, tk >>

MFin == /\ pc[0] = "MFin"
        /\ done' = TRUE
        /\ pc' = [pc EXCEPT ![0] = "Done"]
        /\ UNCHANGED << ci, st, nd, sk, pi, fi, tasks, now, obs, script, ntop, 
                        panicked, started, mon, stack, fr, to, m, lg, sx, jx, 
                        ch, lv, snap, ka, ca, gx, ex, nx, fx, bx, bc, tx, ta, 
                        tc, ft, act, sj, tk >>

Main == M0 \/ M1 \/ M2 \/ M3 \/ M4 \/ MDone \/ MWait \/ MFin

th_start(self) == /\ pc[self] = "th_start"
                  /\ started /\ self <= Len(CFG.thr)
                  /\ pc' = [pc EXCEPT ![self] = "TH0"]
                  /\ UNCHANGED << ci, st, nd, sk, pi, fi, tasks, now, obs, 
                                  script, ntop, panicked, started, mon, done, 
                                  stack, fr, to, m, lg, sx, jx, ch, lv, snap, 
                                  ka, ca, gx, ex, nx, fx, bx, bc, tx, ta, tc, 
                                  ft, act, sj, tk >>

TH0(self) == /\ pc[self] = "TH0"
             /\ IF CFG.thr[self].greet /\ pi[InstOfPid(CFG.thr[self].pid)].pending
                   THEN /\ /\ gx' = [gx EXCEPT ![self] = InstOfPid(CFG.thr[self].pid)]
                           /\ stack' = [stack EXCEPT ![self] = << [ procedure |->  "Greet",
                                                                    pc        |->  "TH1",
                                                                    gx        |->  gx[self] ] >>
                                                                \o stack[self]]
                        /\ pc' = [pc EXCEPT ![self] = "G0"]
                   ELSE /\ pc' = [pc EXCEPT ![self] = "TH1"]
                        /\ UNCHANGED << stack, gx >>
             /\ UNCHANGED << ci, st, nd, sk, pi, fi, tasks, now, obs, script, 
                             ntop, panicked, started, mon, done, fr, to, m, lg, 
                             sx, jx, ch, lv, snap, ka, ca, ex, nx, fx, bx, bc, 
                             tx, ta, tc, ft, act, sj, tk >>

TH1(self) == /\ pc[self] = "TH1"
             /\ IF tk[self] < CFG.thr[self].data /\ PupLive(InstOfPid(CFG.thr[self].pid))
                   THEN /\ /\ ex' = [ex EXCEPT ![self] = InstOfPid(CFG.thr[self].pid)]
                           /\ stack' = [stack EXCEPT ![self] = << [ procedure |->  "Emit",
                                                                    pc        |->  "TH2",
                                                                    ex        |->  ex[self] ] >>
                                                                \o stack[self]]
                        /\ pc' = [pc EXCEPT ![self] = "E0"]
                   ELSE /\ pc' = [pc EXCEPT ![self] = "TH3"]
                        /\ UNCHANGED << stack, ex >>
             /\ UNCHANGED << ci, st, nd, sk, pi, fi, tasks, now, obs, script, 
                             ntop, panicked, started, mon, done, fr, to, m, lg, 
                             sx, jx, ch, lv, snap, ka, ca, gx, nx, fx, bx, bc, 
                             tx, ta, tc, ft, act, sj, tk >>

TH2(self) == /\ pc[self] = "TH2"
             /\ tk' = [tk EXCEPT ![self] = tk[self] + 1]
             /\ pc' = [pc EXCEPT ![self] = "TH1"]
             /\ UNCHANGED << ci, st, nd, sk, pi, fi, tasks, now, obs, script, 
                             ntop, panicked, started, mon, done, stack, fr, to, 
                             m, lg, sx, jx, ch, lv, snap, ka, ca, gx, ex, nx, 
                             fx, bx, bc, tx, ta, tc, ft, act, sj >>

TH3(self) == /\ pc[self] = "TH3"
             /\ IF CFG.thr[self].end # "none" /\ PupLive(InstOfPid(CFG.thr[self].pid))
                   THEN /\ IF CFG.thr[self].end = "E"
                              THEN /\ /\ fx' = [fx EXCEPT ![self] = InstOfPid(CFG.thr[self].pid)]
                                      /\ stack' = [stack EXCEPT ![self] = << [ procedure |->  "FailP",
                                                                               pc        |->  "TH4",
                                                                               fx        |->  fx[self] ] >>
                                                                           \o stack[self]]
                                   /\ pc' = [pc EXCEPT ![self] = "F0"]
                                   /\ nx' = nx
                              ELSE /\ /\ nx' = [nx EXCEPT ![self] = InstOfPid(CFG.thr[self].pid)]
                                      /\ stack' = [stack EXCEPT ![self] = << [ procedure |->  "EndP",
                                                                               pc        |->  "TH4",
                                                                               nx        |->  nx[self] ] >>
                                                                           \o stack[self]]
                                   /\ pc' = [pc EXCEPT ![self] = "N0"]
                                   /\ fx' = fx
                   ELSE /\ pc' = [pc EXCEPT ![self] = "TH4"]
                        /\ UNCHANGED << stack, nx, fx >>
             /\ UNCHANGED << ci, st, nd, sk, pi, fi, tasks, now, obs, script, 
                             ntop, panicked, started, mon, done, fr, to, m, lg, 
                             sx, jx, ch, lv, snap, ka, ca, gx, ex, bx, bc, tx, 
                             ta, tc, ft, act, sj, tk >>

TH4(self) == /\ pc[self] = "TH4"
             /\ TRUE
             /\ pc' = [pc EXCEPT ![self] = "Done"]
             /\ UNCHANGED << ci, st, nd, sk, pi, fi, tasks, now, obs, script, 
                             ntop, panicked, started, mon, done, stack, fr, to, 
                             m, lg, sx, jx, ch, lv, snap, ka, ca, gx, ex, nx, 
                             fx, bx, bc, tx, ta, tc, ft, act, sj, tk >>

Thr(self) == th_start(self) \/ TH0(self) \/ TH1(self) \/ TH2(self)
                \/ TH3(self) \/ TH4(self)

(* Allow infinite stuttering to prevent deadlock on termination. *)
Terminating == /\ \A self \in ProcSet: pc[self] = "Done"
               /\ UNCHANGED vars

Next == Main
           \/ (\E self \in ProcSet:  \/ Deliver(self) \/ SinkAct(self)
                                     \/ Greet(self) \/ Emit(self) \/ EndP(self)
                                     \/ FailP(self) \/ Burst(self) \/ PupTop(self)
                                     \/ Fire(self))
           \/ (\E self \in 1..NThr: Thr(self))
           \/ Terminating

Spec == Init /\ [][Next]_vars

Termination == <>(\A self \in ProcSet: pc[self] = "Done")

\* END TRANSLATION

Finished == done \/ panicked

-----------------------------------------------------------------------------
(* Threaded scenarios (C18, C19).  The labels below are exactly the points at which the real code,  *)
(* built with --cfg callbag_verif, calls the scheduler hook (one label per shared-state access of   *)
(* merge/combine/take on the member-thread paths, plus the probe sink's handler and thread start).   *)
AccessLabels == {"th_start", "K1",
                 "mg_late_ld", "mg_tb_st", "mg_start_fa", "cb_tb_st", "cb_start_fs",
                 "tk_taken_fu", "tk_end_ld", "tk_end_st", "tk_up_ld", "tk_src_end_st",
                 "mg_tb_clr", "mg_end_fa", "mg_ended_st", "mg_sib_ld", "mg_tk_ended_st", "MG8", "mg_pl_ended_ld",
                 "cb_vals_ld", "cb_rcu_ld", "cb_rcu_cas", "cb_ndata_fs", "cb_ndata_ld", "cb_emit_ld",
                 "cb_end_fs", "cb_sib_ld"}
\* the step thread t is about to take is a shared-state access (the exit test of a loop is not)
AccessStep(t) == /\ pc[t] \in AccessLabels
                 /\ (pc[t] \in {"mg_sib_ld", "MG8"} => jx[t] <= Len(Ups(to[t].n)))
MidFlight(t) == pc[t] # "Done" /\ ~AccessStep(t)
Mover(t) == pc'[t] # pc[t] \/ stack'[t] # stack[t]
\* between two accesses a thread runs without interruption (that is the granularity of the property and
\* of the hooked code): a thread that is in the middle of such a segment is the one that moves
Eager == \A t \in 1..NThr : MidFlight(t) => Mover(t)

ThrFails == \E t \in 1..Len(CFG.thr) : CFG.thr[t].end = "E"
TotalSent == LET RECURSIVE Sum(_)
                 Sum(i) == IF i > Len(pi) THEN 0 ELSE pi[i].sent + Sum(i + 1)
             IN Sum(1)
AllSentVals == UNION {SentVals(ix) : ix \in 1..Len(pi)}

\* C18 on the monitors, at the end of every threaded behaviour of merge! / combine!
C18MonOK ==
  /\ mon.greets = 1
  /\ mon.bad = {}
  /\ mon.ends <= 1
  /\ (~ThrFails => /\ mon.ends = 1 /\ mon.errs = 0
                   /\ (Kind(CFG.root) = "merge" => mon.ndata = TotalSent /\ mon.seen = AllSentVals))
  /\ (ThrFails /\ Kind(CFG.root) = "merge" => mon.errs = 1 /\ mon.ends = 0)
\* C19 on the monitors: take(n) over racing deliveries
C19MonOK ==
  LET n == Node(CFG.root).n IN
  /\ mon.ndata <= n
  /\ mon.ends + mon.errs <= 1
  /\ (mon.ndata >= n => mon.ends = 1)
  /\ \A ix \in 1..Len(pi) : /\ pi[ix].stops <= 1
                             /\ (mon.ndata >= n /\ ~pi[ix].ended => pi[ix].stops = 1)
ThrMonOK == (done /\ IsThr) =>
              IF Kind(CFG.root) = "take" THEN C19MonOK
              ELSE IF Kind(CFG.root) \in {"merge", "combine"} THEN C18MonOK ELSE TRUE
NoPanic == ~panicked
=============================================================================
