---------------------------- MODULE CallbagProps ----------------------------
(***************************************************************************)
(* The listed properties C01..C20 of callbag-rs as predicates over the     *)
(* sequence `obs` of observable boundary events (DESIGN.md §3.1, §7).      *)
(* Each Cxx(cfg, obs) is the SET OF VIOLATION WITNESSES; the property      *)
(* holds on the trace iff the set is empty.  The same operators are        *)
(* evaluated by TLC (a) on every complete behaviour of the model           *)
(* Callbag.tla and (b) on every trace recorded from the real code.         *)
(*                                                                         *)
(* An event is [k, th, fr, to, t, v]:  k = "c" call / "r" return / "top"   *)
(* top-level marker / "fn" closure invocation / "next","clone" iterator /  *)
(* "spawn","sleep","taskdone" mock nursery / "panic".                      *)
(* Calls: fr/to in {"S"} \cup sink names K<k> \cup puppet instances U<p>#<i>*)
(***************************************************************************)
EXTENDS Integers, Sequences, FiniteSets, TLC

KNm(k) == "K" \o ToString(k)
SinkNames(cfg) == {KNm(k) : k \in 1..Len(cfg.sinks)}

IsCall(e) == e.k = "c"
IsRet(e)  == e.k = "r"
IsEndT(t) == t \in {"T", "E"}
Idx(obs)  == 1..Len(obs)
Calls(obs) == {i \in Idx(obs) : IsCall(obs[i])}
ToC(obs, i, c)   == IsCall(obs[i]) /\ obs[i].to = c      \* a call delivered to component c
FromC(obs, i, c) == IsCall(obs[i]) /\ obs[i].fr = c      \* a call made by component c

\* puppet instances that occur in the trace
UNames(cfg, obs) == ({obs[i].to : i \in {j \in Calls(obs) : obs[j].fr = "S"}}
                     \cup {obs[i].fr : i \in {j \in Calls(obs) : obs[j].to = "S"}}) \ SinkNames(cfg)

Ths(obs) == {obs[i].th : i \in Idx(obs)}

\* ---- nesting: par[i] = innermost call enclosing event i (0 = top level); ret[j] = index of the
\* ---- return of call j (Len+1 if it never returned)
Nest(obs) ==
  LET n == Len(obs)
      RECURSIVE Go(_, _, _, _)
      Go(i, stk, par, ret) ==
        IF i > n THEN [par |-> par, ret |-> ret]
        ELSE LET e == obs[i]
                 s == stk[e.th]
                 top == IF s = <<>> THEN 0 ELSE s[Len(s)]
             IN IF e.k = "c"
                THEN Go(i + 1, [stk EXCEPT ![e.th] = Append(s, i)], [par EXCEPT ![i] = top], ret)
                ELSE IF e.k = "r"
                THEN Go(i + 1, [stk EXCEPT ![e.th] = IF s = <<>> THEN s ELSE SubSeq(s, 1, Len(s) - 1)],
                        [par EXCEPT ![i] = top],
                        IF top = 0 THEN ret ELSE [ret EXCEPT ![top] = i])
                ELSE Go(i + 1, stk, [par EXCEPT ![i] = top], ret)
  IN Go(1, [t \in Ths(obs) |-> <<>>], [i \in 1..n |-> 0], [i \in 1..n |-> n + 1])

RECURSIVE InsideP(_, _, _)      \* event i lies strictly inside call j
InsideP(par, i, j) == IF par[i] = 0 THEN FALSE ELSE IF par[i] = j THEN TRUE ELSE InsideP(par, par[i], j)

RECURSIVE RootOf(_, _)          \* outermost call enclosing event i (i itself if at top level)
RootOf(par, i) == IF par[i] = 0 THEN i ELSE RootOf(par, par[i])

\* top-level steps: StepStart(i) = index of the last "top" marker at or before i (0 if none)
Tops(obs) == {i \in Idx(obs) : obs[i].k = "top"}
StepStart(obs, i) == LET c == {j \in Tops(obs) : j <= i} IN IF c = {} THEN 0 ELSE CHOOSE j \in c : \A q \in c : q <= j
\* last index of the step containing i
StepEnd(obs, i) == LET c == {j \in Tops(obs) : j > i} IN IF c = {} THEN Len(obs) ELSE (CHOOSE j \in c : \A q \in c : j <= q) - 1
Panicked(obs) == \E i \in Idx(obs) : obs[i].k = "panic"

Min(S) == CHOOSE x \in S : \A y \in S : x <= y
Max(S) == CHOOSE x \in S : \A y \in S : y <= x

RootKind(cfg) == cfg.nodes[cfg.root].kind

\* a witness: property, clause, position in the trace, component, scenario family (= kind of the root
\* operator), context, and `op` = the operator the component talks to directly (the root operator for a
\* sink, the operator subscribed to it for a puppet instance); known findings are keyed on these fields
WO(prop, clause, at, comp, cfg, ctx, op) ==
  [prop |-> prop, clause |-> clause, at |-> at, comp |-> comp, fam |-> cfg.fam, ctx |-> ctx, op |-> op]
W(prop, clause, at, comp, cfg, ctx) == WO(prop, clause, at, comp, cfg, ctx, RootKind(cfg))

\* kind of the operator directly subscribed to the puppet with id pid (root kind if none, e.g. the
\* inner puppets of flatten, which are handed out by the outer puppet)
DownKind(cfg, pid) ==
  LET pn == {n \in 1..Len(cfg.nodes) : cfg.nodes[n].kind \in {"puppet", "puppet_outer"} /\ cfg.nodes[n].pid = pid}
      dn == {n \in 1..Len(cfg.nodes) : \E i \in 1..Len(cfg.nodes[n].ups) : cfg.nodes[n].ups[i] \in pn}
  IN IF dn = {} THEN RootKind(cfg) ELSE cfg.nodes[CHOOSE n \in dn : TRUE].kind
IsShare(cfg) == RootKind(cfg) = "share"

\* ---- owner of a puppet instance: the sink whose subscription created it -----------------------
SubIdx(obs, u) == LET c == {i \in Calls(obs) : obs[i].to = u /\ obs[i].t = "Sub"} IN IF c = {} THEN 0 ELSE Min(c)
PidOfU(obs, u) == LET s == SubIdx(obs, u) IN IF s = 0 THEN 0 ELSE obs[s].v
RECURSIVE OwnerOf(_, _, _, _)
OwnerOf(cfg, obs, par, u) ==
  LET s == SubIdx(obs, u) IN
  IF s = 0 THEN ""
  ELSE LET r == RootOf(par, s) IN
       IF r = s
       THEN \* directly under a top-level marker: "attach Kk"
            LET t == StepStart(obs, s) IN IF t = 0 THEN "" ELSE obs[t].to
       ELSE IF obs[r].fr \in SinkNames(cfg) THEN obs[r].fr
       ELSE IF obs[r].to \in SinkNames(cfg) THEN obs[r].to
       ELSE IF obs[r].fr # "S" /\ obs[r].fr # u THEN OwnerOf(cfg, obs, par, obs[r].fr)
       \* the outermost call is the Subscribe of an earlier instance made during "attach"
       ELSE IF obs[r].fr = "S" /\ obs[r].to # u /\ obs[r].t = "Sub" THEN OwnerOf(cfg, obs, par, obs[r].to)
       ELSE ""

\* ---- sink / upstream status at a position ------------------------------------------------------
GreetedBefore(obs, K, i)  == \E a \in 1..(i - 1) : ToC(obs, a, K) /\ obs[a].t = "H"
EndedBefore(obs, K, i)    == \E a \in 1..(i - 1) : ToC(obs, a, K) /\ IsEndT(obs[a].t)
DisposedBefore(obs, K, i) == \E a \in 1..(i - 1) : FromC(obs, a, K) /\ IsEndT(obs[a].t)
OverBefore(obs, K, i)     == EndedBefore(obs, K, i) \/ DisposedBefore(obs, K, i)
LiveAt(obs, K, i)         == GreetedBefore(obs, K, i) /\ ~OverBefore(obs, K, i)
UGreetedBefore(obs, u, i) == \E a \in 1..(i - 1) : FromC(obs, a, u) /\ obs[a].t = "H"
USelfEndedBefore(obs, u, i) == \E a \in 1..(i - 1) : FromC(obs, a, u) /\ IsEndT(obs[a].t)
UStoppedBefore(obs, u, i) == \E a \in 1..(i - 1) : ToC(obs, a, u) /\ IsEndT(obs[a].t)

\* context strings used to identify known findings narrowly
\* nested fan-out: event b lies inside a source->S call j during which (before b) the source made
\* another, already returned, call j2 to S (the source emitted from inside one of the deliveries)
NestedFanout(cfg, obs, nst, b) ==
  \E j \in Calls(obs) : obs[j].to = "S" /\ obs[j].fr \in UNames(cfg, obs) /\ InsideP(nst.par, b, j)
     /\ \E j2 \in (j + 1)..(b - 1) : IsCall(obs[j2]) /\ obs[j2].to = "S" /\ obs[j2].fr = obs[j].fr
            /\ InsideP(nst.par, j2, j) /\ nst.ret[j2] < b
InsideSinkCall(cfg, obs, nst, b, t) ==
  \E j \in Calls(obs) : obs[j].fr \in SinkNames(cfg) /\ obs[j].to = "S" /\ obs[j].t = t /\ InsideP(nst.par, b, j)
InsideAnySinkCall(cfg, obs, nst, b) ==
  \E j \in Calls(obs) : obs[j].fr \in SinkNames(cfg) /\ obs[j].to = "S" /\ InsideP(nst.par, b, j)

\* event b is a message to an upstream that itself failed earlier inside the same sink Pull (the
\* broadcast loop of that Pull was still running when the member answered a nested Pull with its Error)
AfterOwnErrorInPull(cfg, obs, nst, b) ==
  \E j \in Calls(obs) : obs[j].fr \in SinkNames(cfg) /\ obs[j].to = "S" /\ obs[j].t = "P" /\ InsideP(nst.par, b, j)
     /\ \E e \in (j + 1)..(b - 1) : IsCall(obs[e]) /\ obs[e].fr = obs[b].to /\ obs[e].to = "S" /\ obs[e].t = "E"
            /\ InsideP(nst.par, e, j)

Ctx(cfg, obs, nst, b) ==
  IF IsShare(cfg) /\ Len(cfg.sinks) >= 2 /\ NestedFanout(cfg, obs, nst, b) THEN "nested_fanout"
  ELSE IF IsCall(obs[b]) /\ obs[b].fr = "S" /\ AfterOwnErrorInPull(cfg, obs, nst, b) THEN "in_pull_broadcast_after_own_error"
  ELSE IF InsideSinkCall(cfg, obs, nst, b, "P") THEN "in_pull_broadcast"
  ELSE IF InsideAnySinkCall(cfg, obs, nst, b) THEN "in_sink_call"
  ELSE ""

-----------------------------------------------------------------------------
\* C01 greet-first, greet-once
C01(cfg, obs) ==
  LET nst == Nest(obs) IN
  UNION {
    {W("C01", "greet_twice", b, K, cfg, Ctx(cfg, obs, nst, b)) :
        b \in {b \in Calls(obs) : ToC(obs, b, K) /\ obs[b].t = "H" /\ GreetedBefore(obs, K, b)}}
    \cup
    {W("C01", "before_greet", b, K, cfg, Ctx(cfg, obs, nst, b)) :
        b \in {b \in Calls(obs) : ToC(obs, b, K) /\ obs[b].t \in {"D", "T", "E"} /\ ~GreetedBefore(obs, K, b)
                 \* sanctioned exception: interval's single Error refusing the subscription (C16)
                 /\ ~(obs[b].t = "E" /\ obs[b].v \in {700, 701}
                      /\ ~\E a \in 1..(b - 1) : ToC(obs, a, K))}}
    : K \in SinkNames(cfg)}

\* C02 termination is final
C02(cfg, obs) ==
  LET nst == Nest(obs) IN
  UNION {
    {W("C02", IF IsEndT(obs[b].t) THEN "two_ends" ELSE "after_end", b, K, cfg, Ctx(cfg, obs, nst, b)) :
        b \in {b \in Calls(obs) : ToC(obs, b, K) /\ EndedBefore(obs, K, b)}}
    : K \in SinkNames(cfg)}

\* C03 disposal is respected (deliveries already in progress when the sink disposes are not "further")
C03(cfg, obs) ==
  LET nst == Nest(obs) IN
  UNION {
    {W("C03", "after_dispose", b, K, cfg, Ctx(cfg, obs, nst, b)) :
        b \in {b \in Calls(obs) : ToC(obs, b, K) /\ DisposedBefore(obs, K, b)}}
    : K \in SinkNames(cfg)}

-----------------------------------------------------------------------------
\* C04 operators are conformant sinks
PassThroughOnly(cfg) ==
  \A n \in 1..Len(cfg.nodes) : cfg.nodes[n].kind \in {"puppet", "map", "filter", "scan", "take", "skip"}

\* quiescent points at which an instance owned by K must have been stopped
AllOwnersOver(cfg, obs, K, i) ==
  IF IsShare(cfg)
  THEN \A k \in 1..Len(cfg.sinks) :
          (\E a \in 1..(i - 1) : obs[a].k = "top" /\ obs[a].to = KNm(k) /\ obs[a].t = "attach")
             => OverBefore(obs, KNm(k), i)
  ELSE OverBefore(obs, K, i)

C04(cfg, obs) ==
  LET nst == Nest(obs)
      US == UNames(cfg, obs)
      attaches == Cardinality({i \in Tops(obs) : obs[i].t = "attach"})
  IN
  UNION {
    \* two stop messages to the same upstream subscription
    {WO("C04", "double_stop", b, u, cfg, Ctx(cfg, obs, nst, b), DownKind(cfg, PidOfU(obs, u))) :
        b \in {b \in Calls(obs) : ToC(obs, b, u) /\ IsEndT(obs[b].t) /\ UStoppedBefore(obs, u, b)}}
    \cup
    \* anything sent to an upstream that had already ended by itself
    {WO("C04", "after_self_end", b, u, cfg, Ctx(cfg, obs, nst, b), DownKind(cfg, PidOfU(obs, u))) :
        b \in {b \in Calls(obs) : ToC(obs, b, u) /\ obs[b].t \in {"P", "T", "E"} /\ USelfEndedBefore(obs, u, b)}}
    \cup
    \* a Pull on a talkback the operator itself has terminated
    {WO("C04", "msg_after_stop", b, u, cfg, Ctx(cfg, obs, nst, b), DownKind(cfg, PidOfU(obs, u))) :
        b \in {b \in Calls(obs) : ToC(obs, b, u) /\ obs[b].t = "P" /\ UStoppedBefore(obs, u, b)}}
    \cup
    \* a Pull before the upstream greeted (no talkback exists yet)
    {W("C04", "pull_before_greet", b, u, cfg, "") :
        b \in {b \in Calls(obs) : ToC(obs, b, u) /\ obs[b].t \in {"P", "T", "E"} /\ ~UGreetedBefore(obs, u, b)}}
    \cup
    \* orphan: at a quiescent point (end of a top-level step) the owner's output is over (for share:
    \* every attached sink has left), this upstream is greeted, has not ended and was not stopped
    (IF Panicked(obs) THEN {} ELSE
     LET K == OwnerOf(cfg, obs, nst.par, u)
         bad == {q \in {StepEnd(obs, t) : t \in Tops(obs)} :
                   /\ (IsShare(cfg) \/ K # "")
                   /\ AllOwnersOver(cfg, obs, K, q + 1)
                   /\ UGreetedBefore(obs, u, q + 1)
                   /\ ~USelfEndedBefore(obs, u, q + 1) /\ ~UStoppedBefore(obs, u, q + 1)}
     IN IF bad = {} THEN {} ELSE {W("C04", "orphan", Min(bad), u, cfg, "")})
    : u \in US}
  \cup
  \* each upstream is subscribed at most once per subscription of the output (a share anywhere in the
  \* graph may legitimately start a fresh upstream subscription)
  (IF (\E n \in 1..Len(cfg.nodes) : cfg.nodes[n].kind = "share") \/ RootKind(cfg) = "flatten" THEN {} ELSE
   UNION {
     LET subs == {i \in Calls(obs) : obs[i].t = "Sub" /\ obs[i].v = cfg.nodes[n].pid} IN
     IF Cardinality(subs) > attaches
     THEN {W("C04", "resubscribed", Max(subs), "U" \o ToString(cfg.nodes[n].pid), cfg, "")} ELSE {}
     : n \in {n \in 1..Len(cfg.nodes) : cfg.nodes[n].kind = "puppet"}})
  \cup
  \* flatten: an inner source is subscribed once per time the outer emitted it
  (IF RootKind(cfg) # "flatten" THEN {} ELSE
   UNION {
     LET subs == {i \in Calls(obs) : obs[i].t = "Sub" /\ obs[i].v = cfg.nodes[n].pid}
         emitted == {i \in Calls(obs) : obs[i].to = "S" /\ obs[i].t = "D" /\ obs[i].v = cfg.nodes[n].pid
                        /\ obs[i].fr \in US /\ ~(obs[i].fr \in {obs[s].to : s \in subs})}
     IN IF Cardinality(subs) > Cardinality(emitted)
        THEN {W("C04", "resubscribed", Max(subs), "U" \o ToString(cfg.nodes[n].pid), cfg, "")} ELSE {}
     : n \in {n \in 1..Len(cfg.nodes) : cfg.nodes[n].kind = "puppet"}})
  \cup
  \* no further upstream is subscribed once the output is over
  (IF IsShare(cfg) THEN {} ELSE
   {W("C04", "subscribe_after_over", b, obs[b].to, cfg, Ctx(cfg, obs, nst, b)) :
      b \in {b \in Calls(obs) : obs[b].t = "Sub"
               /\ LET K == OwnerOf(cfg, obs, nst.par, obs[b].to) IN K # "" /\ OverBefore(obs, K, b)}})
  \cup
  \* a sink Error through pass-through operators reaches the upstream as the same Error
  (IF ~PassThroughOnly(cfg) THEN {} ELSE
   {W("C04", "error_not_relayed", b, obs[b].to, cfg, "") :
      b \in {b \in Calls(obs) : obs[b].fr = "S" /\ obs[b].to \in US /\ IsEndT(obs[b].t)
               /\ \E a \in Calls(obs) : obs[a].fr \in SinkNames(cfg) /\ obs[a].t = "E"
                     /\ InsideP(nst.par, b, a) /\ ~(obs[b].t = "E" /\ obs[b].v = obs[a].v)}})
  \cup
  \* an interval upstream must not be left ticking: once every sink is over, the first expiry of each
  \* of its timers ends the task (scenarios whose graph contains an interval node under operators)
  (IF ~\E n \in 1..Len(cfg.nodes) : cfg.nodes[n].kind = "interval" THEN {} ELSE
   {W("C04", "interval_left_ticking", f, obs[f].to, cfg, "") :
      f \in {f \in Tops(obs) : obs[f].t = "fire" /\ ~Panicked(obs)
               /\ (\A k \in 1..Len(cfg.sinks) :
                      (\E a \in 1..(f - 1) : obs[a].k = "top" /\ obs[a].to = KNm(k) /\ obs[a].t = "attach")
                        /\ OverBefore(obs, KNm(k), f))
               /\ ~\E e \in f..StepEnd(obs, f) : obs[e].k = "taskdone" /\ obs[e].to = obs[f].to}})
  \cup
  \* for_each as a sink: one Pull per Handshake/Data received, nested in it; never a Terminate/Error
  (IF ~\E k \in 1..Len(cfg.sinks) : cfg.sinks[k] = "foreach_raw" THEN {} ELSE
   UNION {
     {W("C04", "for_each_stops_source", b, u, cfg, "") :
        b \in {b \in Calls(obs) : ToC(obs, b, u) /\ IsEndT(obs[b].t)}}
     \cup
     {W("C04", "for_each_pull_count", a, u, cfg, "") :
        a \in {a \in Calls(obs) : FromC(obs, a, u) /\ obs[a].t \in {"H", "D"} /\ nst.ret[a] <= Len(obs)
                 /\ Cardinality({b \in Calls(obs) : ToC(obs, b, u) /\ obs[b].t = "P" /\ nst.par[b] = a}) # 1}}
     \cup
     {W("C04", "for_each_stray_pull", b, u, cfg, "") :
        b \in {b \in Calls(obs) : ToC(obs, b, u) /\ obs[b].t = "P"
                 /\ ~(nst.par[b] # 0 /\ obs[nst.par[b]].fr = u /\ obs[nst.par[b]].t \in {"H", "D"})}}
     : u \in US})

-----------------------------------------------------------------------------
\* C05 errors are not lost
C05(cfg, obs) ==
  LET nst == Nest(obs)
      US == UNames(cfg, obs)
      \* upstream failures that begin while the owner's output is live
      fails == {j \in Calls(obs) : obs[j].fr \in US /\ obs[j].to = "S" /\ obs[j].t = "E"}
      sinksOf(j) == IF IsShare(cfg)
                    THEN {K \in SinkNames(cfg) : LiveAt(obs, K, j)}
                    ELSE LET K == OwnerOf(cfg, obs, nst.par, obs[j].fr) IN
                         IF K # "" /\ LiveAt(obs, K, j) THEN {K} ELSE {}
  IN
  UNION {
    UNION {
      LET e == StepEnd(obs, j)
          errs == {b \in (j + 1)..e : ToC(obs, b, K) /\ obs[b].t = "E"}
          same == {b \in errs : obs[b].v = obs[j].v}
      IN
      (IF same = {} /\ ~Panicked(obs)
       THEN {W("C05", "error_not_forwarded", j, K, cfg, "")} ELSE {})
      \cup
      (IF Cardinality(errs) > 1 THEN {W("C05", "error_twice", Max(errs), K, cfg, "")} ELSE {})
      \cup
      {W("C05", "turned_into_completion", b, K, cfg, "") :
          b \in {b \in (j + 1)..e : ToC(obs, b, K) /\ obs[b].t = "T" /\ same = {}}}
      \cup
      \* the remaining live upstreams of that subscription are disposed by the end of the step
      (IF Panicked(obs) THEN {} ELSE
       {W("C05", "siblings_left_running", e, u, cfg, "") :
          u \in {u \in US \ {obs[j].fr} :
                   (IsShare(cfg) \/ OwnerOf(cfg, obs, nst.par, u) = K)
                   /\ UGreetedBefore(obs, u, e + 1) /\ ~USelfEndedBefore(obs, u, e + 1)
                   /\ ~UStoppedBefore(obs, u, e + 1)}})
      \cup
      \* ... and so is an upstream of that subscription that had been subscribed before the failure but
      \* greets only afterwards (by the end of the step in which it greets)
      (IF Panicked(obs) \/ IsShare(cfg) THEN {} ELSE
       {W("C05", "late_sibling_left_running", StepEnd(obs, h), obs[h].fr, cfg, "") :
          h \in {h \in Calls(obs) :
                   /\ h > e /\ obs[h].to = "S" /\ obs[h].t = "H" /\ obs[h].fr \in US \ {obs[j].fr}
                   /\ OwnerOf(cfg, obs, nst.par, obs[h].fr) = K
                   /\ ~USelfEndedBefore(obs, obs[h].fr, StepEnd(obs, h) + 1)
                   /\ ~UStoppedBefore(obs, obs[h].fr, StepEnd(obs, h) + 1)}})
      : K \in sinksOf(j)}
    : j \in fails}

-----------------------------------------------------------------------------
\* C17 no panics with conformant peers
C17(cfg, obs) ==
  {W("C17", "panic", i, "", cfg,
     \* context used to identify finding F8: share, a sink acts while the current upstream
     \* subscription has not greeted yet
     IF IsShare(cfg) /\ \E s \in Calls(obs) : s < i /\ obs[s].t = "Sub"
                                              /\ ~UGreetedBefore(obs, obs[s].to, i)
                                              /\ ~USelfEndedBefore(obs, obs[s].to, i)
     THEN "share_upstream_not_greeted" ELSE "") :
   i \in {i \in Idx(obs) : obs[i].k = "panic"}}

-----------------------------------------------------------------------------
\* list semantics shared by C06 / C07 (closure catalogue of harness/src/graph.rs and Callbag.tla)
FnI(f, x) == CASE f = "inc" -> x + 1 [] f = "dbl" -> 2 * x [] f = "half" -> x \div 2
PrI(p, x) == CASE p = "even" -> x % 2 = 0 [] p = "odd" -> x % 2 = 1 [] p = "gt1" -> x > 1 [] p = "gt11" -> x > 11
               [] p = "all" -> TRUE [] p = "none" -> FALSE
RdI(r, a, x) == CASE r = "add" -> a + x [] r = "max" -> (IF a > x THEN a ELSE x) [] r = "lin" -> 2 * a + x
GnL(g, x) == CASE g = "rep" -> <<x, x>>
               [] g = "upto" -> [q \in 1..(IF x < 0 THEN 0 ELSE IF x > 3 THEN 3 ELSE x) |-> q]
               [] g = "oddonly" -> IF x % 2 = 1 THEN <<x>> ELSE <<>>

MapL(f, xs) == [i \in 1..Len(xs) |-> FnI(f, xs[i])]
RECURSIVE FilterL(_, _)
FilterL(p, xs) == IF xs = <<>> THEN <<>>
                  ELSE (IF PrI(p, Head(xs)) THEN <<Head(xs)>> ELSE <<>>) \o FilterL(p, Tail(xs))
RECURSIVE ScanL(_, _, _)
ScanL(r, a, xs) == IF xs = <<>> THEN <<>>
                   ELSE LET a2 == RdI(r, a, Head(xs)) IN <<a2>> \o ScanL(r, a2, Tail(xs))
TakeL(n, xs) == SubSeq(xs, 1, IF n < Len(xs) THEN n ELSE Len(xs))
DropL(n, xs) == SubSeq(xs, (IF n < Len(xs) THEN n ELSE Len(xs)) + 1, Len(xs))
RECURSIVE ConcatMapL(_, _)
ConcatMapL(g, xs) == IF xs = <<>> THEN <<>> ELSE GnL(g, Head(xs)) \o ConcatMapL(g, Tail(xs))

UnaryL(nd, xs) ==
  CASE nd.kind = "map"    -> MapL(nd.f, xs)
    [] nd.kind = "filter" -> FilterL(nd.p, xs)
    [] nd.kind = "scan"   -> ScanL(nd.r, nd.seed, xs)
    [] nd.kind = "take"   -> TakeL(nd.n, xs)
    [] nd.kind = "skip"   -> DropL(nd.n, xs)

\* values of the Data calls among the indices I, in order
RECURSIVE ValsOf(_, _, _)
ValsOf(obs, I, from) ==
  LET c == {i \in I : i >= from} IN
  IF c = {} THEN <<>> ELSE LET m == Min(c) IN <<obs[m].v>> \o ValsOf(obs, I, m + 1)

-----------------------------------------------------------------------------
\* C07 reactive programming: unary operators are incremental list functions.
\* Applies to the single-operator families map/filter/scan/take/skip over one puppet.
IsUnaryFam(cfg) == Len(cfg.nodes) = 2 /\ cfg.nodes[1].kind = "puppet"
                   /\ cfg.nodes[2].kind \in {"map", "filter", "scan", "take", "skip"} /\ cfg.root = 2

\* a chain of unary operators over one puppet: nodes 2..N, node k subscribed to node k-1, root = N
IsUnaryChain(cfg) == /\ Len(cfg.nodes) >= 3 /\ cfg.nodes[1].kind = "puppet" /\ cfg.root = Len(cfg.nodes)
                     /\ \A n \in 2..Len(cfg.nodes) : cfg.nodes[n].kind \in {"map", "filter", "scan", "take", "skip"}
                                                      /\ cfg.nodes[n].ups = <<n - 1>>
RECURSIVE ChainL(_, _, _)
ChainL(cfg, n, xs) == IF n > Len(cfg.nodes) THEN xs ELSE ChainL(cfg, n + 1, UnaryL(cfg.nodes[n], xs))

\* C07 for a chain: the composition of the list functions, incrementally and synchronously
C07Chain(cfg, obs) ==
  LET nst == Nest(obs)
      US == UNames(cfg, obs)
  IN
  UNION {
    LET K == OwnerOf(cfg, obs, nst.par, u)
        inD(r)  == {i \in Calls(obs) : i < r /\ FromC(obs, i, u) /\ obs[i].t = "D"}
        outD(r) == {i \in Calls(obs) : i < r /\ ToC(obs, i, K) /\ obs[i].t = "D"}
    IN IF K = "" THEN {} ELSE
    {W("C07", "prefix_mismatch", j, K, cfg, "chain") :
        j \in {j \in Calls(obs) : FromC(obs, j, u) /\ nst.ret[j] <= Len(obs)
                 /\ ~DisposedBefore(obs, K, nst.ret[j])
                 /\ ValsOf(obs, outD(nst.ret[j]), 1) # ChainL(cfg, 2, ValsOf(obs, inD(nst.ret[j]), 1))}}
    \cup
    {W("C07", "not_synchronous", b, K, cfg, "chain") :
        b \in {b \in Calls(obs) : ToC(obs, b, K) /\ obs[b].t = "D"
                 /\ ~\E j \in Calls(obs) : FromC(obs, j, u) /\ obs[j].t = "D" /\ InsideP(nst.par, b, j)}}
    : u \in US}

C07(cfg, obs) ==
  IF IsUnaryChain(cfg) THEN C07Chain(cfg, obs) ELSE
  IF ~IsUnaryFam(cfg) THEN {} ELSE
  LET nst == Nest(obs)
      op == cfg.nodes[2]
      US == UNames(cfg, obs)
  IN
  UNION {
    LET K == OwnerOf(cfg, obs, nst.par, u)
        inD(r)  == {i \in Calls(obs) : i < r /\ FromC(obs, i, u) /\ obs[i].t = "D"}
        outD(r) == {i \in Calls(obs) : i < r /\ ToC(obs, i, K) /\ obs[i].t = "D"}
    IN IF K = "" THEN {} ELSE
    \* after every upstream message: received = F(sent so far), while the sink has not disposed
    {W("C07", "prefix_mismatch", j, K, cfg, "") :
        j \in {j \in Calls(obs) : FromC(obs, j, u) /\ nst.ret[j] <= Len(obs)
                 /\ ~DisposedBefore(obs, K, nst.ret[j])
                 /\ ValsOf(obs, outD(nst.ret[j]), 1) # UnaryL(op, ValsOf(obs, inD(nst.ret[j]), 1))}}
    \cup
    \* each output is delivered during the delivery of an input
    {W("C07", "not_synchronous", b, K, cfg, "") :
        b \in {b \in Calls(obs) : ToC(obs, b, K) /\ obs[b].t = "D"
                 /\ ~\E j \in Calls(obs) : FromC(obs, j, u) /\ obs[j].t = "D" /\ InsideP(nst.par, b, j)}}
    \cup
    (IF op.kind = "take"
     THEN \* completes the sink and disposes upstream immediately after the nth item
          LET outs == {i \in Calls(obs) : ToC(obs, i, K) /\ obs[i].t = "D"} IN
          IF Cardinality(outs) < op.n THEN {} ELSE
          LET bn == CHOOSE b \in outs : Cardinality({i \in outs : i <= b}) = op.n
              js == {j \in Calls(obs) : FromC(obs, j, u) /\ obs[j].t = "D" /\ InsideP(nst.par, bn, j)}
          IN IF js = {} THEN {} ELSE
             LET j == Max(js) IN
             IF nst.ret[j] > Len(obs) \/ DisposedBefore(obs, K, nst.ret[j]) THEN {} ELSE
             \* (if the source itself completed or failed from inside that delivery, its end is what the
             \* sink receives and there is nothing left to dispose)
             (IF \E c \in (bn + 1)..nst.ret[j] : ToC(obs, c, K) /\ IsEndT(obs[c].t) THEN {}
              ELSE {W("C07", "late_completion", bn, K, cfg, "")})
             \cup
             (IF (\E d \in (bn + 1)..nst.ret[j] : ToC(obs, d, u) /\ IsEndT(obs[d].t))
                 \/ USelfEndedBefore(obs, u, nst.ret[j]) THEN {}
              ELSE {W("C07", "late_upstream_disposal", bn, u, cfg, "")})
     ELSE \* the others complete exactly when upstream does
          {W("C07", "completion_mismatch", j, K, cfg, "") :
             j \in {j \in Calls(obs) : FromC(obs, j, u) /\ obs[j].t = "T" /\ LiveAt(obs, K, j)
                      /\ nst.ret[j] <= Len(obs)
                      /\ ~\E c \in j..nst.ret[j] : ToC(obs, c, K) /\ obs[c].t = "T"}}
          \cup
          {W("C07", "completion_mismatch", c, K, cfg, "") :
             c \in {c \in Calls(obs) : ToC(obs, c, K) /\ obs[c].t = "T"
                      /\ ~\E j \in Calls(obs) : FromC(obs, j, u) /\ obs[j].t = "T" /\ InsideP(nst.par, c, j)}})
    : u \in US}

-----------------------------------------------------------------------------
\* helpers for the operator-specific properties
NMem(cfg) == Len(cfg.nodes[cfg.root].ups)
MPid(cfg, m) == cfg.nodes[cfg.nodes[cfg.root].ups[m]].pid
Owners(cfg, obs, nst) == [u \in UNames(cfg, obs) |-> OwnerOf(cfg, obs, nst.par, u)]
\* the instance of member m in K's subscription ("" if that member was never subscribed)
MemInst(cfg, obs, mine, m) ==
  LET c == {u \in mine : PidOfU(obs, u) = MPid(cfg, m)} IN
  IF c = {} THEN "" ELSE CHOOSE u \in c : \A w \in c : SubIdx(obs, u) <= SubIdx(obs, w)
UActive(obs, u, i) == UGreetedBefore(obs, u, i) /\ ~USelfEndedBefore(obs, u, i) /\ ~UStoppedBefore(obs, u, i)

\* relay of member data to the sink: each member datum that arrives while the output is live is
\* delivered exactly once, unchanged, directly inside the member's own delivery; nothing else is
RelayViol(prop, cfg, obs, nst, mine, K) ==
  UNION {
    LET direct == {b \in Calls(obs) : ToC(obs, b, K) /\ obs[b].t = "D" /\ nst.par[b] = j} IN
    (IF direct = {} THEN {W(prop, "data_lost", j, K, cfg, "")} ELSE {})
    \cup (IF Cardinality(direct) > 1 THEN {W(prop, "data_dup", j, K, cfg, "")} ELSE {})
    \cup {W(prop, "data_changed", b, K, cfg, "") : b \in {b \in direct : obs[b].v # obs[j].v}}
    : j \in {j \in Calls(obs) : obs[j].fr \in mine /\ obs[j].to = "S" /\ obs[j].t = "D"
                /\ LiveAt(obs, K, j) /\ nst.ret[j] <= Len(obs)}}
  \cup
  {W(prop, "data_foreign", b, K, cfg, "") :
     b \in {b \in Calls(obs) : ToC(obs, b, K) /\ obs[b].t = "D"
              /\ ~(nst.par[b] # 0 /\ obs[nst.par[b]].fr \in mine /\ obs[nst.par[b]].t = "D")}}

\* every member still running when the sink's Pull returns (the output still being live) was reached
PullFanout(prop, cfg, obs, nst, mine, K) ==
  UNION {
    (IF OverBefore(obs, K, nst.ret[a]) THEN {} ELSE
     {W(prop, "pull_fanout", a, u, cfg, "") :
        u \in {u \in mine : UGreetedBefore(obs, u, a) /\ ~USelfEndedBefore(obs, u, nst.ret[a])
                 /\ ~UStoppedBefore(obs, u, nst.ret[a])
                 /\ ~\E b \in a..nst.ret[a] : ToC(obs, b, u) /\ obs[b].t = "P" /\ InsideP(nst.par, b, a)}})
    : a \in {a \in Calls(obs) : FromC(obs, a, K) /\ obs[a].t = "P" /\ LiveAt(obs, K, a)
                /\ nst.ret[a] <= Len(obs)}}

\* ... and no Pull is forwarded to a member that has completed (by Terminate) before that Pull reaches it
PullToCompleted(prop, cfg, obs, nst, mine, K) ==
  {W(prop, "pull_to_completed", b, obs[b].to, cfg, Ctx(cfg, obs, nst, b)) :
     b \in {b \in Calls(obs) : obs[b].fr = "S" /\ obs[b].to \in mine /\ obs[b].t = "P"
              /\ \E e \in 1..(b - 1) : FromC(obs, e, obs[b].to) /\ obs[e].t = "T"}}

-----------------------------------------------------------------------------
\* C08 merge!
C08(cfg, obs) ==
  IF RootKind(cfg) # "merge" THEN {} ELSE
  LET nst == Nest(obs)
      own == Owners(cfg, obs, nst)
      n == NMem(cfg)
  IN
  UNION {
    LET mine == {u \in DOMAIN own : own[u] = K}
        greets == {i \in Calls(obs) : obs[i].fr \in mine /\ obs[i].to = "S" /\ obs[i].t = "H"}
        kH == {i \in Calls(obs) : ToC(obs, i, K) /\ obs[i].t = "H"}
        ends == {j \in Calls(obs) : obs[j].fr \in mine /\ obs[j].to = "S" /\ obs[j].t = "T"}
    IN
    \* greets the sink when the first member greets
    (IF greets = {} THEN {} ELSE
     LET h == Min(greets) IN
     (IF nst.ret[h] <= Len(obs) /\ ~\E b \in kH : InsideP(nst.par, b, h)
      THEN {W("C08", "greet_not_at_first", h, K, cfg, "")} ELSE {})
     \cup {W("C08", "greet_not_at_first", b, K, cfg, "") : b \in {b \in kH : ~InsideP(nst.par, b, h)}})
    \cup RelayViol("C08", cfg, obs, nst, mine, K)
    \cup PullFanout("C08", cfg, obs, nst, mine, K)
    \cup PullToCompleted("C08", cfg, obs, nst, mine, K)
    \cup
    \* completes exactly once, when the last member has completed
    {W("C08", "completion_early", c, K, cfg, "") :
       c \in {c \in Calls(obs) : ToC(obs, c, K) /\ obs[c].t = "T"
                /\ ~\E j \in ends : InsideP(nst.par, c, j) /\ Cardinality({e \in ends : e <= j}) = n}}
    \cup
    {W("C08", "completion_missing", j, K, cfg, "") :
       j \in {j \in ends : Cardinality({e \in ends : e <= j}) = n /\ LiveAt(obs, K, j)
                /\ nst.ret[j] <= Len(obs)
                /\ ~\E c \in j..nst.ret[j] : ToC(obs, c, K) /\ obs[c].t = "T" /\ InsideP(nst.par, c, j)}}
    \cup
    \* a member that greets after the output is over is disposed at once
    UNION {
      (IF ~\E b \in h..nst.ret[h] : ToC(obs, b, obs[h].fr) /\ IsEndT(obs[b].t) /\ InsideP(nst.par, b, h)
       THEN {W("C08", "late_member_not_disposed", h, obs[h].fr, cfg, "")} ELSE {})
      \cup
      {W("C08", "late_member_reaches_sink", b, K, cfg, "") :
         b \in {b \in h..nst.ret[h] : ToC(obs, b, K) /\ InsideP(nst.par, b, h)}}
      : h \in {h \in greets : OverBefore(obs, K, h) /\ nst.ret[h] <= Len(obs)}}
    : K \in SinkNames(cfg)}

-----------------------------------------------------------------------------
\* C09 concat!
C09(cfg, obs) ==
  IF RootKind(cfg) # "concat" THEN {} ELSE
  LET nst == Nest(obs)
      own == Owners(cfg, obs, nst)
      n == NMem(cfg)
  IN
  UNION {
    LET mine == {u \in DOMAIN own : own[u] = K}
        um(m) == MemInst(cfg, obs, mine, m)
        tcall(u) == {j \in Calls(obs) : FromC(obs, j, u) /\ obs[j].t = "T"}
    IN
    \* member k+1 is subscribed only after member k has completed (i.e. not before member k's
    \* Terminate has been delivered to concat; the present code does it inside that delivery, a
    \* refactoring that does it later is not flagged)
    UNION {
      (IF um(m) = "" THEN {} ELSE
       IF um(m - 1) = "" \/ ~\E j \in tcall(um(m - 1)) : j < SubIdx(obs, um(m))
       THEN {W("C09", "eager_subscribe", SubIdx(obs, um(m)), um(m), cfg, "")} ELSE {})
      \cup
      \* a Pull that is being answered with the previous member's end is re-issued to the next member
      (IF um(m) = "" \/ um(m - 1) = "" THEN {} ELSE
       {W("C09", "pull_not_carried", h, um(m), cfg, "") :
          h \in {h \in Calls(obs) : FromC(obs, h, um(m)) /\ obs[h].t = "H" /\ LiveAt(obs, K, h)
                   /\ nst.ret[h] <= Len(obs)
                   /\ (\E a \in Calls(obs) : FromC(obs, a, K) /\ obs[a].t = "P" /\ InsideP(nst.par, h, a)
                          /\ \E j \in tcall(um(m - 1)) : InsideP(nst.par, j, a) /\ InsideP(nst.par, h, j))
                   /\ ~\E b \in h..nst.ret[h] : ToC(obs, b, um(m)) /\ obs[b].t = "P" /\ InsideP(nst.par, b, h)}})
      : m \in 2..n}
    \cup RelayViol("C09", cfg, obs, nst, mine, K)
    \cup
    \* the sink completes after the last member, and only then
    {W("C09", "completion_early", c, K, cfg, "") :
       c \in {c \in Calls(obs) : ToC(obs, c, K) /\ obs[c].t = "T"
                /\ ~(um(n) # "" /\ \E j \in tcall(um(n)) : InsideP(nst.par, c, j))}}
    \cup
    (IF um(n) = "" THEN {} ELSE
     {W("C09", "completion_missing", j, K, cfg, "") :
        j \in {j \in tcall(um(n)) : LiveAt(obs, K, j) /\ nst.ret[j] <= Len(obs)
                 /\ ~\E c \in j..nst.ret[j] : ToC(obs, c, K) /\ obs[c].t = "T" /\ InsideP(nst.par, c, j)}})
    \cup
    \* after an error or a disposal no later member is ever subscribed
    {W("C09", "subscribe_after_over", b, obs[b].to, cfg, "") :
       b \in {b \in Calls(obs) : obs[b].t = "Sub" /\ obs[b].to \in mine /\ OverBefore(obs, K, b)}}
    : K \in SinkNames(cfg)}

-----------------------------------------------------------------------------
\* C10 combine!
C10(cfg, obs) ==
  IF RootKind(cfg) # "combine" THEN {} ELSE
  LET nst == Nest(obs)
      own == Owners(cfg, obs, nst)
      n == NMem(cfg)
  IN
  UNION {
    LET mine == {u \in DOMAIN own : own[u] = K}
        um(m) == MemInst(cfg, obs, mine, m)
        greets == {i \in Calls(obs) : obs[i].fr \in mine /\ obs[i].to = "S" /\ obs[i].t = "H"}
        kH == {i \in Calls(obs) : ToC(obs, i, K) /\ obs[i].t = "H"}
        dataIn == {j \in Calls(obs) : obs[j].fr \in mine /\ obs[j].to = "S" /\ obs[j].t = "D"}
        ends == {j \in Calls(obs) : obs[j].fr \in mine /\ obs[j].to = "S" /\ IsEndT(obs[j].t)}
        lastOf(j, m) == {i \in dataIn : i <= j /\ obs[i].fr = um(m)}
        defined(j) == \A m \in 1..n : um(m) # "" /\ lastOf(j, m) # {}
        tuple(j) == [m \in 1..n |-> obs[Max(lastOf(j, m))].v]
    IN
    \* greets the sink once all members have greeted (inside the last member greeting)
    {W("C10", "greet_early", b, K, cfg, "") :
       b \in {b \in kH : Cardinality({h \in greets : h < b}) < n}}
    \cup
    (IF Cardinality(greets) < n THEN {} ELSE
     LET hl == CHOOSE h \in greets : Cardinality({g \in greets : g <= h}) = n IN
     IF nst.ret[hl] <= Len(obs) /\ ~\E b \in kH : InsideP(nst.par, b, hl)
     THEN {W("C10", "greet_late", hl, K, cfg, "")} ELSE {})
    \cup
    \* exactly one tuple per member datum once every member has a value, none before
    UNION {
      LET direct == {b \in Calls(obs) : ToC(obs, b, K) /\ obs[b].t = "D" /\ nst.par[b] = j} IN
      IF defined(j)
      THEN (IF direct = {} THEN {W("C10", "tuple_missing", j, K, cfg, "")} ELSE {})
           \cup (IF Cardinality(direct) > 1 THEN {W("C10", "tuple_dup", j, K, cfg, "")} ELSE {})
           \cup {W("C10", "tuple_wrong", b, K, cfg, "") : b \in {b \in direct : obs[b].v # tuple(j)}}
      ELSE {W("C10", "tuple_early", b, K, cfg, "") : b \in direct}
      : j \in {j \in dataIn : LiveAt(obs, K, j) /\ nst.ret[j] <= Len(obs)}}
    \cup
    {W("C10", "tuple_foreign", b, K, cfg, "") :
       b \in {b \in Calls(obs) : ToC(obs, b, K) /\ obs[b].t = "D"
                /\ ~(nst.par[b] # 0 /\ nst.par[b] \in dataIn)}}
    \cup
    \* completion: not before every member has ended; exactly once when all completed normally
    {W("C10", "completion_early", c, K, cfg, "") :
       c \in {c \in Calls(obs) : ToC(obs, c, K) /\ obs[c].t = "T"
                /\ Cardinality({e \in ends : e <= c}) < n}}
    \cup
    (IF Cardinality(ends) < n \/ \E e \in ends : obs[e].t = "E" THEN {} ELSE
     LET jl == CHOOSE j \in ends : Cardinality({e \in ends : e <= j}) = n IN
     IF LiveAt(obs, K, jl) /\ nst.ret[jl] <= Len(obs)
        /\ Cardinality({c \in jl..nst.ret[jl] : ToC(obs, c, K) /\ obs[c].t = "T" /\ InsideP(nst.par, c, jl)}) # 1
     THEN {W("C10", "completion_missing", jl, K, cfg, "")} ELSE {})
    \cup PullFanout("C10", cfg, obs, nst, mine, K)
    : K \in SinkNames(cfg)}

-----------------------------------------------------------------------------
\* C11 flatten (root flatten over one outer puppet whose data are inner puppets)
C11(cfg, obs) ==
  IF RootKind(cfg) # "flatten" THEN {} ELSE
  LET nst == Nest(obs)
      own == Owners(cfg, obs, nst)
      opid == MPid(cfg, 1)
  IN
  UNION {
    LET mine == {u \in DOMAIN own : own[u] = K}
        outs == {u \in mine : PidOfU(obs, u) = opid}
        inners == mine \ outs
        \* the inner subscribed most recently before position i ("" if none)
        current(i) == LET c == {x \in inners : SubIdx(obs, x) < i} IN
                      IF c = {} THEN "" ELSE CHOOSE x \in c : \A y \in c : SubIdx(obs, y) <= SubIdx(obs, x)
        oEnded(i) == \E o \in outs : \E a \in 1..(i - 1) : FromC(obs, a, o) /\ obs[a].t = "T"
    IN
    UNION {
      \* every inner source the outer emits is subscribed
      {W("C11", "inner_not_subscribed", j, K, cfg, "") :
         j \in {j \in Calls(obs) : FromC(obs, j, o) /\ obs[j].t = "D" /\ LiveAt(obs, K, j)
                  /\ nst.ret[j] <= Len(obs)
                  /\ ~\E s \in j..nst.ret[j] : IsCall(obs[s]) /\ obs[s].t = "Sub" /\ obs[s].v = obs[j].v
                                               /\ nst.par[s] = j}}
      \cup
      \* when a newer inner arrives the previous one, if still active, is disposed exactly once
      {W("C11", "switch_dispose", j, current(j), cfg, "") :
         j \in {j \in Calls(obs) : FromC(obs, j, o) /\ obs[j].t = "D" /\ nst.ret[j] <= Len(obs)
                  /\ current(j) # "" /\ UActive(obs, current(j), j)
                  /\ Cardinality({b \in j..nst.ret[j] : ToC(obs, b, current(j)) /\ IsEndT(obs[b].t)
                                                        /\ nst.par[b] = j}) # 1}}
      \cup
      \* completion exactly when the outer completes with no active inner ...
      {W("C11", "completion_missing", j, K, cfg, "") :
         j \in {j \in Calls(obs) : FromC(obs, j, o) /\ obs[j].t = "T" /\ LiveAt(obs, K, j)
                  /\ nst.ret[j] <= Len(obs)
                  /\ (current(j) = "" \/ ~UActive(obs, current(j), j))
                  /\ ~\E c \in j..nst.ret[j] : ToC(obs, c, K) /\ obs[c].t = "T" /\ nst.par[c] = j}}
      : o \in outs}
    \cup
    UNION {
      \* each inner is pulled exactly once on greeting
      {W("C11", "inner_not_pulled_once", h, x, cfg, "") :
         h \in {h \in Calls(obs) : FromC(obs, h, x) /\ obs[h].t = "H" /\ nst.ret[h] <= Len(obs)
                  /\ Cardinality({b \in h..nst.ret[h] : ToC(obs, b, x) /\ obs[b].t = "P" /\ nst.par[b] = h}) # 1}}
      \cup
      \* ... or when the current inner completes after the outer has completed
      {W("C11", "completion_missing", j, K, cfg, "") :
         j \in {j \in Calls(obs) : FromC(obs, j, x) /\ obs[j].t = "T" /\ LiveAt(obs, K, j)
                  /\ nst.ret[j] <= Len(obs) /\ x = current(j) /\ oEnded(j)
                  /\ ~\E c \in j..nst.ret[j] : ToC(obs, c, K) /\ obs[c].t = "T" /\ nst.par[c] = j}}
      : x \in inners}
    \cup
    \* only the latest inner speaks
    {W("C11", "stale_data", b, K, cfg, "") :
       b \in {b \in Calls(obs) : ToC(obs, b, K) /\ obs[b].t = "D"
                /\ ~(nst.par[b] # 0 /\ obs[nst.par[b]].t = "D" /\ obs[nst.par[b]].fr \in inners
                     /\ obs[nst.par[b]].fr = current(b) /\ obs[nst.par[b]].v = obs[b].v)}}
    \cup
    {W("C11", "completion_wrong", c, K, cfg, "") :
       c \in {c \in Calls(obs) : ToC(obs, c, K) /\ obs[c].t = "T"
                /\ ~(nst.par[c] # 0 /\ obs[nst.par[c]].t = "T"
                     /\ LET j == nst.par[c] IN
                        \/ (obs[j].fr \in outs /\ (current(j) = "" \/ ~UActive(obs, current(j), j)))
                        \/ (obs[j].fr \in inners /\ obs[j].fr = current(j) /\ oEnded(j)))}}
    \cup
    \* a Pull goes to the active inner if there is one, else to the outer
    UNION {
      LET x == current(a)
          toX == {b \in a..nst.ret[a] : x # "" /\ ToC(obs, b, x) /\ obs[b].t = "P" /\ nst.par[b] = a}
          toO == {b \in a..nst.ret[a] : obs[b].to \in outs /\ IsCall(obs[b]) /\ obs[b].t = "P" /\ nst.par[b] = a}
      IN IF x # "" /\ UActive(obs, x, a)
         THEN (IF toX = {} THEN {W("C11", "pull_routing", a, x, cfg, "inner")} ELSE {})
              \cup {W("C11", "pull_routing", b, obs[b].to, cfg, "outer_while_inner_active") : b \in toO}
         ELSE IF \E o \in outs : UActive(obs, o, a)
              THEN (IF toO = {} THEN {W("C11", "pull_routing", a, K, cfg, "outer")} ELSE {})
              ELSE {}
      : a \in {a \in Calls(obs) : FromC(obs, a, K) /\ obs[a].t = "P" /\ LiveAt(obs, K, a)
                 /\ nst.ret[a] <= Len(obs)}}
    : K \in SinkNames(cfg)}

-----------------------------------------------------------------------------
\* C12 share
C12(cfg, obs) ==
  IF ~IsShare(cfg) THEN {} ELSE
  LET nst == Nest(obs)
      US == UNames(cfg, obs)
      KS == SinkNames(cfg)
      alive(u, i) == SubIdx(obs, u) < i /\ ~USelfEndedBefore(obs, u, i) /\ ~UStoppedBefore(obs, u, i)
      attached(K, i) == GreetedBefore(obs, K, i) /\ ~OverBefore(obs, K, i)
      multi == Len(cfg.sinks) >= 2
      ucalls == {j \in Calls(obs) : obs[j].fr \in US /\ obs[j].to = "S"}
      \* scope of the property for 2+ sinks: the source does not emit from inside a delivery
      plain(j) == ~multi \/ (~(\E i \in ucalls : InsideP(nst.par, j, i)) /\ ~(\E i \in ucalls : InsideP(nst.par, i, j)))
      \* context for finding F2-attach: before position i some sink attached from inside the fan-out of the
      \* source's Terminate/Error (it is greeted, but share clears its list when the fan-out is over)
      cx(i) == IF \E t \in Tops(obs) : t <= i /\ obs[t].t = "attach" /\ nst.par[t] # 0
                     /\ LET r == RootOf(nst.par, t) IN obs[r].fr \in US /\ IsEndT(obs[r].t)
               THEN "attach_inside_end_fanout" ELSE ""
  IN
  \* at most one upstream subscription is alive
  {W("C12", "second_upstream", s, obs[s].to, cfg, cx(s)) :
     s \in {s \in Calls(obs) : obs[s].t = "Sub" /\ \E u \in US : alive(u, s)}}
  \cup
  \* it is started when a sink attaches while none is alive (first attach, after the end, after all left)
  {W("C12", "not_started", t, obs[t].to, cfg, cx(t)) :
     t \in {t \in Tops(obs) : obs[t].t = "attach" /\ ~Panicked(obs) /\ ~(\E u \in US : alive(u, t))
              /\ ~\E s \in t..StepEnd(obs, t) : IsCall(obs[s]) /\ obs[s].t = "Sub"}}
  \cup
  \* every attached sink receives every datum and the termination emitted while it is attached
  UNION {
    {W("C12", IF obs[j].t = "D" THEN "missed_datum" ELSE "missed_end", j, K, cfg, cx(j)) :
       K \in {K \in KS : attached(K, j) /\ ~DisposedBefore(obs, K, nst.ret[j])
                /\ ~\E b \in j..nst.ret[j] : ToC(obs, b, K) /\ obs[b].t = obs[j].t /\ obs[b].v = obs[j].v
                                             /\ nst.par[b] = j}}
    : j \in {j \in ucalls : obs[j].t \in {"D", "T", "E"} /\ nst.ret[j] <= Len(obs) /\ plain(j)}}
  \cup
  \* upstream is disposed exactly when the last attached sink detaches
  UNION {
    LET K == obs[a].fr
        others == {Q \in KS \ {K} : attached(Q, a)}
        stops == {b \in a..nst.ret[a] : obs[b].to \in US /\ IsCall(obs[b]) /\ IsEndT(obs[b].t)
                    /\ InsideP(nst.par, b, a)}
    IN (IF others = {}
       THEN (IF (\E u \in US : alive(u, a) /\ UGreetedBefore(obs, u, a)) /\ stops = {}
             THEN {W("C12", "upstream_not_disposed", a, K, cfg, cx(a))} ELSE {})
       ELSE {W("C12", "upstream_disposed_early", b, K, cfg, cx(b)) : b \in stops})
       \cup
       \* ... and never after it has ended by itself (e.g. a detach from inside the end fan-out)
       {W("C12", "upstream_disposed_after_end", b, K, cfg, cx(b)) :
          b \in {b \in stops : USelfEndedBefore(obs, obs[b].to, b)}}
    : a \in {a \in Calls(obs) : obs[a].fr \in KS /\ obs[a].to = "S" /\ IsEndT(obs[a].t)
               /\ LiveAt(obs, obs[a].fr, a) /\ nst.ret[a] <= Len(obs)
               /\ (~multi \/ ~\E i \in ucalls : InsideP(nst.par, a, i) /\ \E i2 \in ucalls : InsideP(nst.par, i2, i))}}

-----------------------------------------------------------------------------
\* C14 demand conservation (scenarios with cfg.c14: pull-mode upstreams, sinks sending at most one
\* Pull per message received)
CountIn(S) == Cardinality(S)
C14(cfg, obs) ==
  IF ~cfg.c14 THEN {} ELSE
  LET nst == Nest(obs)
      own == Owners(cfg, obs, nst)
      quiet == {StepEnd(obs, t) : t \in Tops(obs)}
  IN
  UNION {
    LET mine == {u \in DOMAIN own : own[u] = K}
        dAt(i) == CountIn({b \in Calls(obs) : b <= i /\ ToC(obs, b, K) /\ obs[b].t = "D"})
        pAt(i) == CountIn({a \in Calls(obs) : a <= i /\ FromC(obs, a, K) /\ obs[a].t = "P"})
        pending(q) == \E u \in mine : ~USelfEndedBefore(obs, u, q + 1) /\ ~UStoppedBefore(obs, u, q + 1)
                        /\ CountIn({i \in 1..q : obs[i].k = "note" /\ obs[i].to = u /\ obs[i].t = "defer"})
                           > CountIn({i \in 1..q : obs[i].k = "top" /\ obs[i].to = u /\ obs[i].t = "reply"})
    IN
    {W("C14", "over_delivery", b, K, cfg, "") :
       b \in {b \in Calls(obs) : ToC(obs, b, K) /\ obs[b].t = "D" /\ dAt(b) > pAt(b)}}
    \cup
    (IF Panicked(obs) THEN {} ELSE
     LET bad == {q \in quiet : LiveAt(obs, K, q + 1) /\ ~pending(q) /\ dAt(q) < pAt(q)} IN
     IF bad = {} THEN {} ELSE {W("C14", "unanswered", Min(bad), K, cfg, "")})
    : K \in {KNm(k) : k \in {k \in 1..Len(cfg.sinks) : cfg.sinks[k] = "probe"}}}

-----------------------------------------------------------------------------
\* C15 from_iter (root is a from_iter node, probe sinks)
RECURSIVE DepthOf(_, _)
DepthOf(par, i) == IF par[i] = 0 THEN 0 ELSE 1 + DepthOf(par, par[i])

C15(cfg, obs) ==
  IF RootKind(cfg) # "from_iter" THEN {} ELSE
  LET nst == Nest(obs)
      nd == cfg.nodes[cfg.root]
      item(k) == IF nd.unbounded THEN k ELSE nd.items[k]
      nitems == IF nd.unbounded THEN nd.limit ELSE Len(nd.items)
      attaches == {t \in Tops(obs) : obs[t].t = "attach"}
      quiet == {StepEnd(obs, t) : t \in Tops(obs)}
  IN
  UNION {
    LET K == obs[t].to
        rank == Cardinality({a \in attaches : a <= t})
        iname == "I" \o ToString(cfg.root) \o "#" \o ToString(rank)
        ds == {b \in Calls(obs) : ToC(obs, b, K) /\ obs[b].t = "D"}
        ts == {b \in Calls(obs) : ToC(obs, b, K) /\ obs[b].t = "T"}
        ps == {a \in Calls(obs) : FromC(obs, a, K) /\ obs[a].t = "P"}
        nexts == {e \in Idx(obs) : obs[e].k = "next" /\ obs[e].to = iname}
        dAt(i) == Cardinality({b \in ds : b <= i})
        pAt(i) == Cardinality({a \in ps : a <= i})
    IN
    \* items in order
    {W("C15", "order", b, K, cfg, "") :
       b \in {b \in ds : dAt(b) > nitems \/ obs[b].v # item(dAt(b))}}
    \cup
    \* one item per Pull
    {W("C15", "over_delivery", b, K, cfg, "") : b \in {b \in ds : dAt(b) > pAt(b)}}
    \cup
    (IF Panicked(obs) THEN {} ELSE
     LET bad == {q \in quiet : LiveAt(obs, K, q + 1) /\ dAt(q) # pAt(q)} IN
     IF bad = {} THEN {} ELSE {W("C15", "unanswered", Min(bad), K, cfg, "")})
    \cup
    \* never re-entrant: no delivery begins while a Data delivery to the same sink is in progress
    {W("C15", "reentrant", b, K, cfg, "") :
       b \in {b \in ds \cup ts : \E a \in ds : InsideP(nst.par, b, a)}}
    \cup
    \* completion exactly once, on the Pull that finds the iterator exhausted
    {W("C15", "end_early", c, K, cfg, "") :
       c \in {c \in ts : nd.unbounded \/ dAt(c) # nitems \/ ~\E a \in ps : InsideP(nst.par, c, a)}}
    \cup
    {W("C15", "end_twice", c, K, cfg, "") : c \in {c \in ts : \E c0 \in ts : c0 < c}}
    \cup
    \* the iterator is never advanced without a Pull, nor once disposed; one next per item or end
    {W("C15", "next_without_pull", e, K, cfg, "") :
       e \in {e \in nexts : ~\E a \in ps : a < e /\ nst.ret[a] > e}}
    \cup
    {W("C15", "next_after_dispose", e, K, cfg, "") :
       e \in {e \in nexts : DisposedBefore(obs, K, e)}}
    \cup
    (IF Cardinality(nexts) # Cardinality(ds) + Cardinality(ts) /\ ~Panicked(obs)
     THEN {W("C15", "next_count", Len(obs), K, cfg, "")} ELSE {})
    \cup
    \* stack depth does not grow with the number of items: a delivery is never nested deeper than
    \* (top-level Pull or greeting) -> item -> nested Pull
    {W("C15", "stack_depth", b, K, cfg, "") : b \in {b \in ds \cup ts : DepthOf(nst.par, b) > 3}}
    : t \in attaches}

-----------------------------------------------------------------------------
\* C16 interval (root is an interval node; subscription s <-> task T<s> <-> the s-th attached sink)
C16(cfg, obs) ==
  IF RootKind(cfg) # "interval" THEN {} ELSE
  LET period == cfg.nodes[cfg.root].period
      attaches == {t \in Tops(obs) : obs[t].t = "attach"}
  IN
  UNION {
    LET K == obs[t].to
        rank == Cardinality({a \in attaches : a <= t})
        tname == "T" \o ToString(rank)
        sp == {e \in Idx(obs) : obs[e].k = "spawn" /\ obs[e].to = tname}
        toK == {b \in Calls(obs) : ToC(obs, b, K)}
        ds == {b \in toK : obs[b].t = "D"}
        fires == {f \in Tops(obs) : obs[f].t = "fire" /\ obs[f].to = tname}
    IN
    IF sp = {} THEN (IF Panicked(obs) THEN {} ELSE {W("C16", "no_spawn", t, K, cfg, "")})
    ELSE LET e == Min(sp) IN
    IF obs[e].t # "ok"
    THEN \* the task cannot be spawned: exactly one Error and nothing else
         (IF Cardinality(toK) # 1
                \/ (\E b \in toK : obs[b].t # "E" \/ obs[b].v # (IF obs[e].t = "Spawn" THEN 700 ELSE 701))
          THEN {W("C16", "spawn_failure", e, K, cfg, "")} ELSE {})
    ELSE
      \* 0, 1, 2, ...
      {W("C16", "sequence", b, K, cfg, "") :
         b \in {b \in ds : obs[b].v # Cardinality({d \in ds : d <= b}) - 1}}
      \cup
      \* exactly one number per elapsed period of its own task, none once the disposal is visible
      UNION {
        LET inStep == {b \in ds : b > f /\ b <= StepEnd(obs, f)} IN
        IF DisposedBefore(obs, K, f)
        THEN {W("C16", "after_dispose", b, K, cfg, "") : b \in inStep}
        ELSE IF Cardinality(inStep) # 1 /\ ~Panicked(obs)
             THEN {W("C16", "not_per_period", f, K, cfg, "")} ELSE {}
        : f \in fires}
      \cup
      {W("C16", "data_outside_tick", b, K, cfg, "") :
         b \in {b \in ds : LET m == StepStart(obs, b) IN m = 0 \/ ~(m \in fires)}}
      \cup
      {W("C16", "sleep_duration", i, K, cfg, "") :
         i \in {i \in Idx(obs) : obs[i].k = "sleep" /\ obs[i].to = tname /\ obs[i].v # period}}
    : t \in attaches}

-----------------------------------------------------------------------------
\* C06 iterable programming: pipe!(from_iter(xs), stages.., for_each(f)); the for_each sits behind a
\* tap named K1 and its closure logs fn events named F1
RECURSIVE Sem(_, _)
Sem(cfg, n) ==
  LET nd == cfg.nodes[n] IN
  CASE nd.kind = "from_iter" -> IF nd.unbounded THEN [q \in 1..nd.limit |-> q] ELSE nd.items
    [] nd.kind \in {"map", "filter", "scan", "take", "skip"} -> UnaryL(nd, Sem(cfg, nd.ups[1]))
    [] nd.kind = "flatmap" -> ConcatMapL(nd.g, Sem(cfg, nd.ups[1]))
    [] nd.kind = "concat" ->
         LET RECURSIVE Cat(_)
             Cat(i) == IF i > Len(nd.ups) THEN <<>> ELSE Sem(cfg, nd.ups[i]) \o Cat(i + 1)
         IN Cat(1)

\* for a linear pipeline of unary operators: how many elements of the upstream list xs are consumed
\* when the downstream wants `want` outputs (want > Len means: until the end), and whether the
\* upstream end is reached.  Returns <<consumed, reachedEnd>>.
Inf == 1000000
RECURSIVE FirstK(_, _, _, _)
\* least prefix length of xs containing `want` elements satisfying p (Len+1 if there are fewer)
FirstK(p, xs, want, i) ==
  IF want = 0 THEN i - 1
  ELSE IF i > Len(xs) THEN Len(xs) + 1
  ELSE FirstK(p, xs, IF PrI(p, xs[i]) THEN want - 1 ELSE want, i + 1)

RECURSIVE FirstCum(_, _, _, _)
\* least prefix length of xs whose concat-mapped lists hold `want` elements (Len+1 if there are fewer)
FirstCum(g, xs, want, i) ==
  IF want <= 0 THEN i - 1
  ELSE IF i > Len(xs) THEN Len(xs) + 1
  ELSE FirstCum(g, xs, want - Len(GnL(g, xs[i])), i + 1)

RECURSIVE Need(_, _, _)
\* number of `next` calls (elements + possibly the exhausting call) that node n's subtree performs on
\* its from_iter when its consumer wants `want` outputs (Inf = runs to completion)
Need(cfg, n, want) ==
  LET nd == cfg.nodes[n] IN
  IF nd.kind = "from_iter"
  THEN LET len == IF nd.unbounded THEN Inf ELSE Len(nd.items) IN IF want > len THEN len + 1 ELSE want
  ELSE LET xs == Sem(cfg, nd.ups[1]) IN
       CASE nd.kind \in {"map", "scan"} -> Need(cfg, nd.ups[1], want)
         [] nd.kind = "take" -> Need(cfg, nd.ups[1], IF nd.n < want THEN nd.n ELSE want)
         [] nd.kind = "skip" -> Need(cfg, nd.ups[1], IF want >= Inf THEN Inf ELSE want + nd.n)
         [] nd.kind = "filter" ->
              IF want >= Inf THEN Need(cfg, nd.ups[1], Inf)
              ELSE LET k == FirstK(nd.p, xs, want, 1) IN
                   Need(cfg, nd.ups[1], IF k > Len(xs) THEN Inf ELSE k)
         \* map-then-flatten: the outer list is advanced only when the inner lists handed out so far are used up
         [] nd.kind = "flatmap" ->
              IF want >= Inf THEN Need(cfg, nd.ups[1], Inf)
              ELSE LET k == FirstCum(nd.g, xs, want, 1) IN
                   Need(cfg, nd.ups[1], IF k > Len(xs) THEN Inf ELSE k)

IsLinearUnary(cfg) ==
  /\ \A n \in 1..Len(cfg.nodes) : cfg.nodes[n].kind \in {"from_iter", "map", "filter", "scan", "take", "skip", "flatmap"}
  /\ Cardinality({n \in 1..Len(cfg.nodes) : cfg.nodes[n].kind = "from_iter"}) = 1

C06(cfg, obs) ==
  IF cfg.fam # "pipeline" THEN {} ELSE
  LET nst == Nest(obs)
      K == "K1"
      expect == Sem(cfg, cfg.root)
      fns == {i \in Idx(obs) : obs[i].k = "fn" /\ obs[i].to = "F1"}
      got == ValsOf(obs, fns, 1)
      ds == {b \in Calls(obs) : ToC(obs, b, K) /\ obs[b].t = "D"}
      ts == {b \in Calls(obs) : ToC(obs, b, K) /\ IsEndT(obs[b].t)}
      ps == {a \in Calls(obs) : FromC(obs, a, K) /\ obs[a].t = "P"}
      nexts == {e \in Idx(obs) : obs[e].k = "next"}
      ran == \E t \in Tops(obs) : obs[t].t = "attach"
  IN
  IF ~ran \/ Panicked(obs) THEN {} ELSE
  \* f is called on exactly the elements of the list function, in order
  (IF got # expect THEN {W("C06", "wrong_elements", Len(obs), K, cfg, "")} ELSE {})
  \cup
  \* ... and then the pipeline completes (exactly one Terminate, after the last datum) without stalling
  (IF Cardinality({c \in ts : obs[c].t = "T"}) # 1 \/ \E c \in ts : obs[c].t = "E"
   THEN {W("C06", "no_completion", Len(obs), K, cfg, "")} ELSE {})
  \cup
  {W("C06", "data_after_completion", b, K, cfg, "") : b \in {b \in ds : \E c \in ts : c < b}}
  \cup
  \* the iterators are advanced only on demand: every next() lies inside a Pull of the consumer
  {W("C06", "next_without_pull", e, obs[e].to, cfg, "") :
     e \in {e \in nexts : ~\E a \in ps : a < e /\ nst.ret[a] > e}}
  \cup
  {W("C06", "runaway", e, obs[e].to, cfg, "") : e \in {e \in Idx(obs) : obs[e].k = "runaway"}}
  \cup
  \* each iterable is cloned once (one subscription) and advanced once per element delivered plus
  \* once to discover exhaustion: for linear pipelines (unary stages and map-then-flatten; the inner
  \* iterables of the latter are not instrumented) the exact number is computable
  (IF IsLinearUnary(cfg) /\ Cardinality(nexts) # Need(cfg, cfg.root, Inf)
   THEN {W("C06", "next_count", Len(obs), K, cfg, "")} ELSE {})
  \cup
  {W("C06", "advanced_after_end", e, obs[e].to, cfg, "") :
     e \in {e \in nexts : \E e0 \in nexts : e0 < e /\ obs[e0].to = obs[e].to /\ obs[e0].v = -1}}

-----------------------------------------------------------------------------
\* C13 subscriptions are independent.  rec is a record of a run with two probe sinks on the same
\* output value: rec.proj[j] = the events of subscription j (every top-level step belongs wholly to
\* one subscription) with the component names that subscription would have on its own; rec.solo[j] =
\* the trace of the same real code driven by subscription j's decisions alone.
FirstDiff(a, b) ==
  LET n == IF Len(a) < Len(b) THEN Len(a) ELSE Len(b)
      d == {i \in 1..n : a[i] # b[i]}
  IN IF d = {} THEN n + 1 ELSE Min(d)

C13(rec) ==
  UNION {
    IF rec.proj[j] # rec.solo[j]
    THEN {W("C13", "differs_from_solo", FirstDiff(rec.proj[j], rec.solo[j]), KNm(j), rec.cfg, "")}
    ELSE {}
    : j \in 1..Len(rec.proj)}

-----------------------------------------------------------------------------
\* C20 the tracing feature is observationally inert.  rec.obs / rec.obs_b / rec.obs_c are the traces of
\* the same scenario and the same decisions recorded from three builds/configurations of the real
\* code: feature off; feature on without a subscriber; feature on with a TRACE-level subscriber.
\* Closure probes (fn events) are part of the trace, so an expression evaluated twice shows up.
C20(rec) ==
  (IF rec.obs_b # rec.obs
   THEN {W("C20", "differs_without_subscriber", FirstDiff(rec.obs, rec.obs_b), "", rec.cfg, "")} ELSE {})
  \cup
  (IF rec.obs_c # rec.obs
   THEN {W("C20", "differs_with_subscriber", FirstDiff(rec.obs, rec.obs_c), "", rec.cfg, "")} ELSE {})

-----------------------------------------------------------------------------
\* C18 fan-in is exactly-once under every thread interleaving (threaded scenarios: cfg.thr # <<>>;
\* events carry the thread id, exactly one thread runs at a time, Nest() keeps one stack per thread)
IsThreaded(cfg) == Len(cfg.thr) > 0

C18(cfg, obs) ==
  IF ~IsThreaded(cfg) \/ ~(RootKind(cfg) \in {"merge", "combine"}) THEN {} ELSE
  LET nst == Nest(obs)
      K == "K1"
      US == UNames(cfg, obs)
      n == NMem(cfg)
      kH == {i \in Calls(obs) : ToC(obs, i, K) /\ obs[i].t = "H"}
      kD == {i \in Calls(obs) : ToC(obs, i, K) /\ obs[i].t = "D"}
      kT == {i \in Calls(obs) : ToC(obs, i, K) /\ obs[i].t = "T"}
      kE == {i \in Calls(obs) : ToC(obs, i, K) /\ obs[i].t = "E"}
      uD == {j \in Calls(obs) : obs[j].fr \in US /\ obs[j].to = "S" /\ obs[j].t = "D"}
      uT == {j \in Calls(obs) : obs[j].fr \in US /\ obs[j].to = "S" /\ obs[j].t = "T"}
      uE == {j \in Calls(obs) : obs[j].fr \in US /\ obs[j].to = "S" /\ obs[j].t = "E"}
      pidOf(u) == PidOfU(obs, u)
      memOf(u) == CHOOSE m \in 1..n : MPid(cfg, m) = pidOf(u)
  IN
  {W("C18", "panic", i, "", cfg, "") : i \in {i \in Idx(obs) : obs[i].k = "panic"}}
  \cup
  (IF Cardinality(kH) # 1 THEN {W("C18", "greets", Len(obs), K, cfg, "")} ELSE {})
  \cup
  (IF RootKind(cfg) = "merge"
   THEN \* every datum exactly once, unchanged, inside the member's own delivery
        UNION {
          LET direct == {b \in kD : nst.par[b] = j} IN
          (IF direct = {} /\ ~EndedBefore(obs, K, j) /\ nst.ret[j] <= Len(obs) /\ ~Panicked(obs)
           THEN {W("C18", "data_lost", j, K, cfg, "")} ELSE {})
          \cup (IF Cardinality(direct) > 1 THEN {W("C18", "data_dup", j, K, cfg, "")} ELSE {})
          \cup {W("C18", "data_changed", b, K, cfg, "") : b \in {b \in direct : obs[b].v # obs[j].v}}
          : j \in uD}
        \cup {W("C18", "data_foreign", b, K, cfg, "") : b \in {b \in kD : nst.par[b] = 0 \/ ~(nst.par[b] \in uD)}}
   ELSE \* combine: only complete tuples made of values actually sent (by that member, earlier)
        {W("C18", "foreign_value", b, K, cfg, "") :
           b \in {b \in kD : Len(obs[b].v) # n
                    \/ \E m \in 1..n : ~\E j \in uD : j < b /\ memOf(obs[j].fr) = m /\ obs[j].v = obs[b].v[m]}})
  \cup
  \* completion exactly once, after every data delivery has returned
  (IF Cardinality(kT) > 1 THEN {W("C18", "end_count", Max(kT), K, cfg, "")} ELSE {})
  \cup
  (IF ~Panicked(obs) /\ uE = {} /\ Cardinality(uT) = n /\ (\A j \in uT : nst.ret[j] <= Len(obs)) /\ kT = {}
   THEN {W("C18", "end_count", Len(obs), K, cfg, "missing")} ELSE {})
  \cup
  (IF RootKind(cfg) = "merge" /\ uE # {} /\ ~Panicked(obs) /\ (\A j \in uE : nst.ret[j] <= Len(obs))
      /\ (Cardinality(kE) # 1 \/ kT # {})
   THEN {W("C18", "end_count", Len(obs), K, cfg, "error")} ELSE {})
  \cup
  {W("C18", "end_during_data", c, K, cfg, "") :
     c \in {c \in kT : \E a \in kD : (a < c /\ nst.ret[a] > c) \/ a > c}}

-----------------------------------------------------------------------------
\* C19 take(n) never over-delivers, even when upstream deliveries race
C19(cfg, obs) ==
  IF ~IsThreaded(cfg) \/ RootKind(cfg) # "take" THEN {} ELSE
  LET K == "K1"
      US == UNames(cfg, obs)
      nmax == cfg.nodes[cfg.root].n
      kD == {i \in Calls(obs) : ToC(obs, i, K) /\ obs[i].t = "D"}
      kT == {i \in Calls(obs) : ToC(obs, i, K) /\ IsEndT(obs[i].t)}
      \* data handed to take: directly by the puppet, or through merge! (which relays every member datum)
      upKind == cfg.nodes[cfg.nodes[cfg.root].ups[1]].kind
      offered == Cardinality({i \in Calls(obs) : obs[i].to = "S" /\ obs[i].t = "D" /\ obs[i].fr \in US})
      \* the n-th item is due: n data were handed to take (known for puppet / merge! upstreams), or n were delivered
      enough == IF upKind \in {"puppet", "merge"} THEN offered >= nmax ELSE Cardinality(kD) >= nmax
  IN
  {W("C19", "panic", i, "", cfg, "") : i \in {i \in Idx(obs) : obs[i].k = "panic"}}
  \cup
  (IF Cardinality(kD) > nmax THEN {W("C19", "over_delivery", Max(kD), K, cfg, "")} ELSE {})
  \cup
  \* a delivery that is dropped although fewer than n went through (then take never terminates anything)
  (IF enough /\ ~Panicked(obs) /\ Cardinality(kD) < nmax
   THEN {W("C19", "under_delivery", Len(obs), K, cfg, "")} ELSE {})
  \cup
  (IF enough /\ ~Panicked(obs) /\ Cardinality(kT) # 1
   THEN {W("C19", "sink_end", Len(obs), K, cfg, "")} ELSE {})
  \cup
  (IF Cardinality(kT) > 1 THEN {W("C19", "sink_end", Max(kT), K, cfg, "twice")} ELSE {})
  \cup
  \* every upstream is terminated exactly once (never twice; once if it had not completed by itself)
  UNION {
    LET stops == {b \in Calls(obs) : ToC(obs, b, u) /\ IsEndT(obs[b].t)} IN
    (IF Cardinality(stops) > 1 THEN {W("C19", "upstream_end", Max(stops), u, cfg, "twice")} ELSE {})
    \cup
    (IF enough /\ ~Panicked(obs) /\ stops = {}
        /\ ~USelfEndedBefore(obs, u, Len(obs) + 1)
     THEN {W("C19", "upstream_end", Len(obs), u, cfg, "missing")} ELSE {})
    : u \in US}

-----------------------------------------------------------------------------
\* dispatcher used by the model configurations (MC_*) and by TraceProps
PropsOf(p, cfg, obs) ==
  CASE p = "C01" -> C01(cfg, obs)
    [] p = "C02" -> C02(cfg, obs)
    [] p = "C03" -> C03(cfg, obs)
    [] p = "C04" -> C04(cfg, obs)
    [] p = "C05" -> C05(cfg, obs)
    [] p = "C06" -> C06(cfg, obs)
    [] p = "C07" -> C07(cfg, obs)
    [] p = "C08" -> C08(cfg, obs)
    [] p = "C09" -> C09(cfg, obs)
    [] p = "C10" -> C10(cfg, obs)
    [] p = "C11" -> C11(cfg, obs)
    [] p = "C12" -> C12(cfg, obs)
    [] p = "C14" -> C14(cfg, obs)
    [] p = "C15" -> C15(cfg, obs)
    [] p = "C16" -> C16(cfg, obs)
    [] p = "C17" -> C17(cfg, obs)
    [] p = "C18" -> C18(cfg, obs)
    [] p = "C19" -> C19(cfg, obs)
    [] OTHER -> {}
=============================================================================
