SPECIFICATION Spec
CONSTANTS Threads = {1, 2}  Reload = TRUE
INVARIANT AtMostOnce
CHECK_DEADLOCK FALSE
