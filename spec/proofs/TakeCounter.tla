---------------------------- MODULE TakeCounter ----------------------------
(***************************************************************************)
(* Complement to C19 (take(n) never over-delivers): an abstract model of   *)
(* take's Data path, for a set of delivering threads and ANY n.  One step  *)
(* of Claim is the single atomic fetch_update of take.rs after fix F6      *)
(* (label tk_taken_fu of Callbag.tla); Deliver is the call of the sink      *)
(* (tk_data).  IndInv is an inductive invariant: Apalache proves            *)
(*   Init => IndInv   and   IndInv /\ Next => IndInv'   for every n >= 0   *)
(* (tools/prove_take.sh), TLC checks it for small constants.               *)
(*                                                                         *)
(* Racy = TRUE models the unrepaired code (`if taken.load() < max {         *)
(* taken.fetch_add(1) ...`): the claim is split into a read and an          *)
(* increment, IndInv is then not inductive and TLC finds the F6             *)
(* counterexample with 2 threads and n = 1 (TakeCounterRacy.cfg).           *)
(***************************************************************************)
EXTENDS Integers, FiniteSets

CONSTANTS
  \* @type: Set(Int);
  Threads,
  \* @type: Int;
  N,
  \* @type: Bool;
  Racy

VARIABLES
  \* @type: Int;
  taken,      \* take's counter
  \* @type: Int;
  delivered,  \* Data deliveries to the sink that have begun
  \* @type: Int -> Str;
  pc          \* per thread: "idle" | "read" | "deliver"

vars == <<taken, delivered, pc>>

ConstInit4 == Threads = {1, 2, 3, 4} /\ N \in Nat /\ Racy = FALSE

Init == /\ taken = 0 /\ delivered = 0
        /\ pc = [t \in Threads |-> "idle"]

\* repaired code: one atomic step
Claim(t) == /\ ~Racy
            /\ pc[t] = "idle" /\ taken < N
            /\ taken' = taken + 1
            /\ pc' = [pc EXCEPT ![t] = "deliver"]
            /\ UNCHANGED delivered
\* unrepaired code
ClaimRead(t) == /\ Racy /\ pc[t] = "idle" /\ taken < N
                /\ pc' = [pc EXCEPT ![t] = "read"]
                /\ UNCHANGED <<taken, delivered>>
ClaimIncr(t) == /\ Racy /\ pc[t] = "read"
                /\ taken' = taken + 1
                /\ pc' = [pc EXCEPT ![t] = "deliver"]
                /\ UNCHANGED delivered
Deliver(t) == /\ pc[t] = "deliver"
              /\ delivered' = delivered + 1
              /\ pc' = [pc EXCEPT ![t] = "idle"]
              /\ UNCHANGED taken
Stutter == UNCHANGED vars

Next == (\E t \in Threads : Claim(t) \/ ClaimRead(t) \/ ClaimIncr(t) \/ Deliver(t)) \/ Stutter
Spec == Init /\ [][Next]_vars

InFlight == Cardinality({t \in Threads : pc[t] = "deliver"})
IndInv == /\ taken \in Nat /\ delivered \in Nat
          /\ pc \in [Threads -> {"idle", "read", "deliver"}]
          /\ delivered + InFlight = taken
          /\ taken <= N
\* C19, first clause: at most n data reach the sink
NoOverDelivery == delivered <= N
=============================================================================
