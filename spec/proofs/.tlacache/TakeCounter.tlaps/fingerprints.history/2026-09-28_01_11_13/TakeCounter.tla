---------------------------- MODULE TakeCounter ----------------------------
(***************************************************************************)
(* Unbounded complement to C19 (take(n) never over-delivers): an abstract  *)
(* model of take's Data path after fix F6, for ANY set of delivering       *)
(* threads and ANY n.  One step of Claim is the single atomic              *)
(* fetch_update of take.rs (label tk_taken_fu of Callbag.tla); Deliver is  *)
(* the call of the sink (tk_data).  The inductive invariant Inv is proved  *)
(* with TLAPS (and checked by TLC for small constants, TakeCounter.cfg).   *)
(*                                                                         *)
(* The unrepaired code corresponds to splitting Claim into a read and an   *)
(* increment; for that variant Inv is not inductive (TLC finds the F6      *)
(* counterexample with 2 threads, n = 1: see ClaimRead/ClaimIncr below,    *)
(* enabled with Racy = TRUE).                                              *)
(***************************************************************************)
EXTENDS Naturals

CONSTANTS Threads, N, Racy
ASSUME NAssump == N \in Nat
ASSUME RacyAssump == Racy \in BOOLEAN

VARIABLES taken,      \* take's counter
          inflight,   \* deliveries claimed but whose sink call has not begun yet
          delivered,  \* Data deliveries to the sink that have begun
          pc          \* per thread: "idle" | "read" | "deliver"
vars == <<taken, inflight, delivered, pc>>

Init == /\ taken = 0 /\ inflight = 0 /\ delivered = 0
        /\ pc = [t \in Threads |-> "idle"]

\* repaired code: one atomic step
Claim(t) == /\ ~Racy
            /\ pc[t] = "idle" /\ taken < N
            /\ taken' = taken + 1 /\ inflight' = inflight + 1
            /\ pc' = [pc EXCEPT ![t] = "deliver"]
            /\ UNCHANGED delivered
\* unrepaired code: `if taken.load() < max { taken.fetch_add(1) ...`
ClaimRead(t) == /\ Racy /\ pc[t] = "idle" /\ taken < N
                /\ pc' = [pc EXCEPT ![t] = "read"]
                /\ UNCHANGED <<taken, inflight, delivered>>
ClaimIncr(t) == /\ Racy /\ pc[t] = "read"
                /\ taken' = taken + 1 /\ inflight' = inflight + 1
                /\ pc' = [pc EXCEPT ![t] = "deliver"]
                /\ UNCHANGED delivered
Deliver(t) == /\ pc[t] = "deliver"
              /\ delivered' = delivered + 1 /\ inflight' = inflight - 1
              /\ pc' = [pc EXCEPT ![t] = "idle"]
              /\ UNCHANGED taken

Next == \E t \in Threads : Claim(t) \/ ClaimRead(t) \/ ClaimIncr(t) \/ Deliver(t)
Spec == Init /\ [][Next]_vars

TypeOK == /\ taken \in Nat /\ inflight \in Nat /\ delivered \in Nat
          /\ pc \in [Threads -> {"idle", "read", "deliver"}]
\* the inductive invariant (for the repaired code)
Inv == /\ TypeOK
       /\ delivered + inflight = taken
       /\ taken <= N
       /\ (inflight = 0 => \A t \in Threads : pc[t] # "deliver")
\* C19, first clause: at most n data reach the sink
NoOverDelivery == delivered <= N

THEOREM InitInv == ASSUME ~Racy PROVE Init => Inv
  BY NAssump DEF Init, Inv, TypeOK

THEOREM NextInv == ASSUME ~Racy PROVE Inv /\ [Next]_vars => Inv'
<1> SUFFICES ASSUME Inv, [Next]_vars PROVE Inv'
  OBVIOUS
<1>1. CASE UNCHANGED vars
  BY <1>1 DEF Inv, TypeOK, vars
<1>2. ASSUME NEW t \in Threads, Claim(t) PROVE Inv'
  BY <1>2, NAssump DEF Inv, TypeOK, Claim
<1>3. ASSUME NEW t \in Threads, Deliver(t) PROVE Inv'
  <2>1. inflight # 0
    BY <1>3 DEF Inv, Deliver
  <2>2. QED
    BY <1>3, <2>1, NAssump DEF Inv, TypeOK, Deliver
<1>4. ASSUME NEW t \in Threads, ClaimRead(t) \/ ClaimIncr(t) PROVE FALSE
  BY <1>4 DEF ClaimRead, ClaimIncr
<1>5. QED
  BY <1>1, <1>2, <1>3, <1>4 DEF Next

THEOREM InvImplies == Inv => NoOverDelivery
  BY NAssump DEF Inv, TypeOK, NoOverDelivery
=============================================================================
