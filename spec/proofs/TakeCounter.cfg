SPECIFICATION Spec
CONSTANTS Threads = {1, 2, 3}  N = 2  Racy = FALSE
INVARIANT IndInv
INVARIANT NoOverDelivery
CHECK_DEADLOCK FALSE
