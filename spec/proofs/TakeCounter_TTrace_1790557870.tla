---- MODULE TakeCounter_TTrace_1790557870 ----
EXTENDS Sequences, TLCExt, TakeCounter_TEConstants, Toolbox, Naturals, TLC, TakeCounter

_expression ==
    LET TakeCounter_TEExpression == INSTANCE TakeCounter_TEExpression
    IN TakeCounter_TEExpression!expression
----

_trace ==
    LET TakeCounter_TETrace == INSTANCE TakeCounter_TETrace
    IN TakeCounter_TETrace!trace
----

_inv ==
    ~(
        TLCGet("level") = Len(_TETrace)
        /\
        pc = ((t1 :> "idle" @@ t2 :> "idle" @@ t3 :> "idle"))
        /\
        taken = (2)
        /\
        delivered = (2)
        /\
        inflight = (0)
    )
----

_init ==
    /\ inflight = _TETrace[1].inflight
    /\ taken = _TETrace[1].taken
    /\ pc = _TETrace[1].pc
    /\ delivered = _TETrace[1].delivered
----

_next ==
    /\ \E i,j \in DOMAIN _TETrace:
        /\ \/ /\ j = i + 1
              /\ i = TLCGet("level")
        /\ inflight  = _TETrace[i].inflight
        /\ inflight' = _TETrace[j].inflight
        /\ taken  = _TETrace[i].taken
        /\ taken' = _TETrace[j].taken
        /\ pc  = _TETrace[i].pc
        /\ pc' = _TETrace[j].pc
        /\ delivered  = _TETrace[i].delivered
        /\ delivered' = _TETrace[j].delivered

\* Uncomment the ASSUME below to write the states of the error trace
\* to the given file in Json format. Note that you can pass any tuple
\* to `JsonSerialize`. For example, a sub-sequence of _TETrace.
    \* ASSUME
    \*     LET J == INSTANCE Json
    \*         IN J!JsonSerialize("TakeCounter_TTrace_1790557870.json", _TETrace)

=============================================================================

 Note that you can extract this module `TakeCounter_TEExpression`
  to a dedicated file to reuse `expression` (the module in the 
  dedicated `TakeCounter_TEExpression.tla` file takes precedence 
  over the module `TakeCounter_TEExpression` below).

---- MODULE TakeCounter_TEExpression ----
EXTENDS Sequences, TLCExt, TakeCounter_TEConstants, Toolbox, Naturals, TLC, TakeCounter

expression == 
    [
        \* To hide variables of the `TakeCounter` spec from the error trace,
        \* remove the variables below.  The trace will be written in the order
        \* of the fields of this record.
        inflight |-> inflight
        ,taken |-> taken
        ,pc |-> pc
        ,delivered |-> delivered
        
        \* Put additional constant-, state-, and action-level expressions here:
        \* ,_stateNumber |-> _TEPosition
        \* ,_inflightUnchanged |-> inflight = inflight'
        
        \* Format the `inflight` variable as Json value.
        \* ,_inflightJson |->
        \*     LET J == INSTANCE Json
        \*     IN J!ToJson(inflight)
        
        \* Lastly, you may build expressions over arbitrary sets of states by
        \* leveraging the _TETrace operator.  For example, this is how to
        \* count the number of times a spec variable changed up to the current
        \* state in the trace.
        \* ,_inflightModCount |->
        \*     LET F[s \in DOMAIN _TETrace] ==
        \*         IF s = 1 THEN 0
        \*         ELSE IF _TETrace[s].inflight # _TETrace[s-1].inflight
        \*             THEN 1 + F[s-1] ELSE F[s-1]
        \*     IN F[_TEPosition - 1]
    ]

=============================================================================



Parsing and semantic processing can take forever if the trace below is long.
 In this case, it is advised to uncomment the module below to deserialize the
 trace from a generated binary file.

\*
\*---- MODULE TakeCounter_TETrace ----
\*EXTENDS IOUtils, TakeCounter_TEConstants, TLC, TakeCounter
\*
\*trace == IODeserialize("TakeCounter_TTrace_1790557870.bin", TRUE)
\*
\*=============================================================================
\*

---- MODULE TakeCounter_TETrace ----
EXTENDS TakeCounter_TEConstants, TLC, TakeCounter

trace == 
    <<
    ([pc |-> (t1 :> "idle" @@ t2 :> "idle" @@ t3 :> "idle"),taken |-> 0,delivered |-> 0,inflight |-> 0]),
    ([pc |-> (t1 :> "deliver" @@ t2 :> "idle" @@ t3 :> "idle"),taken |-> 1,delivered |-> 0,inflight |-> 1]),
    ([pc |-> (t1 :> "idle" @@ t2 :> "idle" @@ t3 :> "idle"),taken |-> 1,delivered |-> 1,inflight |-> 0]),
    ([pc |-> (t1 :> "deliver" @@ t2 :> "idle" @@ t3 :> "idle"),taken |-> 2,delivered |-> 1,inflight |-> 1]),
    ([pc |-> (t1 :> "idle" @@ t2 :> "idle" @@ t3 :> "idle"),taken |-> 2,delivered |-> 2,inflight |-> 0])
    >>
----


=============================================================================

---- MODULE TakeCounter_TEConstants ----
EXTENDS TakeCounter

CONSTANTS t1, t2, t3

=============================================================================

---- CONFIG TakeCounter_TTrace_1790557870 ----
CONSTANTS
    Threads = { t1 , t2 , t3 }
    N = 2
    Racy = FALSE
    t3 = t3
    t2 = t2
    t1 = t1

INVARIANT
    _inv

CHECK_DEADLOCK
    \* CHECK_DEADLOCK off because of PROPERTY or INVARIANT above.
    FALSE

INIT
    _init

NEXT
    _next

CONSTANT
    _TETrace <- _trace

ALIAS
    _expression
=============================================================================
\* Generated on Mon Sep 28 01:11:11 UTC 2026