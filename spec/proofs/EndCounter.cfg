SPECIFICATION Spec
CONSTANTS Threads = {1, 2, 3}  Reload = FALSE
INVARIANT IndInv
INVARIANT AtMostOnce
INVARIANT ExactlyOnceAtEnd
CHECK_DEADLOCK FALSE
