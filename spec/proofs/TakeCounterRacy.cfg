SPECIFICATION Spec
CONSTANTS Threads = {1, 2}  N = 1  Racy = TRUE
INVARIANT NoOverDelivery
CHECK_DEADLOCK FALSE
