----------------------------- MODULE EndCounter -----------------------------
(***************************************************************************)
(* Complement to C18 ("completion is delivered exactly once"): an abstract *)
(* model of the completion counting of merge! (end_count) and combine!     *)
(* (n_end).  Every member thread ends once: Incr is the single atomic      *)
(* fetch_add / fetch_sub (labels mg_end_fa / cb_end_fs of Callbag.tla),     *)
(* Decide compares the value THAT fetch returned with the member count and  *)
(* terminates the sink if they are equal (mg_term / cb_term).               *)
(* IndInv is an inductive invariant (Apalache, tools/prove_take.sh, for 4   *)
(* member threads); it implies at most one Terminate, and exactly one once  *)
(* every member has decided.                                                *)
(*                                                                          *)
(* Reload = TRUE models the seeded change "increment, then re-read the      *)
(* counter": Decide compares the CURRENT counter; TLC finds the double      *)
(* Terminate with 2 threads (EndCounterReload.cfg).                         *)
(***************************************************************************)
EXTENDS Integers, FiniteSets

CONSTANTS
  \* @type: Set(Int);
  Threads,
  \* @type: Bool;
  Reload

VARIABLES
  \* @type: Int;
  cnt,
  \* @type: Int -> Int;
  got,
  \* @type: Int -> Str;
  pc,
  \* @type: Int;
  terms

vars == <<cnt, got, pc, terms>>
N == Cardinality(Threads)

ConstInit4 == Threads = {1, 2, 3, 4} /\ Reload = FALSE

Init == /\ cnt = 0 /\ terms = 0
        /\ got = [t \in Threads |-> 0]
        /\ pc = [t \in Threads |-> "run"]

Incr(t) == /\ pc[t] = "run"
           /\ cnt' = cnt + 1
           /\ got' = [got EXCEPT ![t] = cnt + 1]
           /\ pc' = [pc EXCEPT ![t] = "got"]
           /\ UNCHANGED terms
Decide(t) == /\ pc[t] = "got"
             /\ terms' = terms + (IF (IF Reload THEN cnt ELSE got[t]) = N THEN 1 ELSE 0)
             /\ pc' = [pc EXCEPT ![t] = "done"]
             /\ UNCHANGED <<cnt, got>>
Stutter == UNCHANGED vars
Next == (\E t \in Threads : Incr(t) \/ Decide(t)) \/ Stutter
Spec == Init /\ [][Next]_vars

Counted == {t \in Threads : pc[t] # "run"}
IndInv == /\ cnt \in Int /\ cnt >= 0 /\ cnt <= N /\ terms \in Nat
          /\ pc \in [Threads -> {"run", "got", "done"}]
          /\ got \in [Threads -> Int]
          /\ \A t \in Threads : got[t] >= 0 /\ got[t] <= N
          /\ cnt = Cardinality(Counted)
          /\ \A t \in Counted : got[t] >= 1 /\ got[t] <= cnt
          /\ \A t \in Counted : \A u \in Counted : t # u => got[t] # got[u]
          /\ terms = Cardinality({t \in Threads : pc[t] = "done" /\ got[t] = N})
AtMostOnce == terms <= 1
ExactlyOnceAtEnd == (\A t \in Threads : pc[t] = "done") => terms = 1
=============================================================================
