---- MODULE TakeCounter_TTrace_1790557909 ----
EXTENDS Sequences, TLCExt, Toolbox, Naturals, TLC, TakeCounter

_expression ==
    LET TakeCounter_TEExpression == INSTANCE TakeCounter_TEExpression
    IN TakeCounter_TEExpression!expression
----

_trace ==
    LET TakeCounter_TETrace == INSTANCE TakeCounter_TETrace
    IN TakeCounter_TETrace!trace
----

_inv ==
    ~(
        TLCGet("level") = Len(_TETrace)
        /\
        pc = (<<"idle", "idle">>)
        /\
        taken = (2)
        /\
        delivered = (2)
    )
----

_init ==
    /\ taken = _TETrace[1].taken
    /\ pc = _TETrace[1].pc
    /\ delivered = _TETrace[1].delivered
----

_next ==
    /\ \E i,j \in DOMAIN _TETrace:
        /\ \/ /\ j = i + 1
              /\ i = TLCGet("level")
        /\ taken  = _TETrace[i].taken
        /\ taken' = _TETrace[j].taken
        /\ pc  = _TETrace[i].pc
        /\ pc' = _TETrace[j].pc
        /\ delivered  = _TETrace[i].delivered
        /\ delivered' = _TETrace[j].delivered

\* Uncomment the ASSUME below to write the states of the error trace
\* to the given file in Json format. Note that you can pass any tuple
\* to `JsonSerialize`. For example, a sub-sequence of _TETrace.
    \* ASSUME
    \*     LET J == INSTANCE Json
    \*         IN J!JsonSerialize("TakeCounter_TTrace_1790557909.json", _TETrace)

=============================================================================

 Note that you can extract this module `TakeCounter_TEExpression`
  to a dedicated file to reuse `expression` (the module in the 
  dedicated `TakeCounter_TEExpression.tla` file takes precedence 
  over the module `TakeCounter_TEExpression` below).

---- MODULE TakeCounter_TEExpression ----
EXTENDS Sequences, TLCExt, Toolbox, Naturals, TLC, TakeCounter

expression == 
    [
        \* To hide variables of the `TakeCounter` spec from the error trace,
        \* remove the variables below.  The trace will be written in the order
        \* of the fields of this record.
        taken |-> taken
        ,pc |-> pc
        ,delivered |-> delivered
        
        \* Put additional constant-, state-, and action-level expressions here:
        \* ,_stateNumber |-> _TEPosition
        \* ,_takenUnchanged |-> taken = taken'
        
        \* Format the `taken` variable as Json value.
        \* ,_takenJson |->
        \*     LET J == INSTANCE Json
        \*     IN J!ToJson(taken)
        
        \* Lastly, you may build expressions over arbitrary sets of states by
        \* leveraging the _TETrace operator.  For example, this is how to
        \* count the number of times a spec variable changed up to the current
        \* state in the trace.
        \* ,_takenModCount |->
        \*     LET F[s \in DOMAIN _TETrace] ==
        \*         IF s = 1 THEN 0
        \*         ELSE IF _TETrace[s].taken # _TETrace[s-1].taken
        \*             THEN 1 + F[s-1] ELSE F[s-1]
        \*     IN F[_TEPosition - 1]
    ]

=============================================================================



Parsing and semantic processing can take forever if the trace below is long.
 In this case, it is advised to uncomment the module below to deserialize the
 trace from a generated binary file.

\*
\*---- MODULE TakeCounter_TETrace ----
\*EXTENDS IOUtils, TLC, TakeCounter
\*
\*trace == IODeserialize("TakeCounter_TTrace_1790557909.bin", TRUE)
\*
\*=============================================================================
\*

---- MODULE TakeCounter_TETrace ----
EXTENDS TLC, TakeCounter

trace == 
    <<
    ([pc |-> <<"idle", "idle">>,taken |-> 0,delivered |-> 0]),
    ([pc |-> <<"read", "idle">>,taken |-> 0,delivered |-> 0]),
    ([pc |-> <<"read", "read">>,taken |-> 0,delivered |-> 0]),
    ([pc |-> <<"deliver", "read">>,taken |-> 1,delivered |-> 0]),
    ([pc |-> <<"deliver", "deliver">>,taken |-> 2,delivered |-> 0]),
    ([pc |-> <<"deliver", "idle">>,taken |-> 2,delivered |-> 1]),
    ([pc |-> <<"idle", "idle">>,taken |-> 2,delivered |-> 2])
    >>
----


=============================================================================

---- CONFIG TakeCounter_TTrace_1790557909 ----
CONSTANTS
    Threads = { 1 , 2 }
    N = 1
    Racy = TRUE

INVARIANT
    _inv

CHECK_DEADLOCK
    \* CHECK_DEADLOCK off because of PROPERTY or INVARIANT above.
    FALSE

INIT
    _init

NEXT
    _next

CONSTANT
    _TETrace <- _trace

ALIAS
    _expression
=============================================================================
\* Generated on Mon Sep 28 01:11:50 UTC 2026