----------------------------- MODULE TraceProps -----------------------------
(***************************************************************************)
(* Evaluates the property predicates of CallbagProps on traces recorded    *)
(* from the real code (NDJSON written by /verif/harness).  One initial     *)
(* state per record; the "invariant" prints the witnesses of every record  *)
(* that violates the selected property and is itself always TRUE, so one   *)
(* TLC run judges the whole file.                                          *)
(***************************************************************************)
EXTENDS CallbagProps, Json, IOUtils

Recs == ndJsonDeserialize(IOEnv.TRACES)
PropSel == IOEnv.PROP

VARIABLE ri

TInit == ri \in 1..Len(Recs)
TNext == UNCHANGED ri
TSpec == TInit /\ [][TNext]_ri

Judge ==
  LET w == IF PropSel = "C13" THEN C13(Recs[ri])
           ELSE IF PropSel = "C20" THEN C20(Recs[ri])
           ELSE PropsOf(PropSel, Recs[ri].cfg, Recs[ri].obs) IN
  \/ w = {}
  \/ PrintT(<<"VIOL", ToJson([id |-> Recs[ri].id, w |-> w])>>)
=============================================================================
