----------------------------- MODULE TraceProps -----------------------------
(***************************************************************************)
(* Evaluates the property predicates of CallbagProps on traces recorded    *)
(* from the real code (NDJSON written by /verif/harness).  One initial     *)
(* state per record; the "invariant" prints the witnesses of every record  *)
(* that violates the selected property and is itself always TRUE, so one   *)
(* TLC run judges the whole file.                                          *)
(***************************************************************************)
EXTENDS CallbagProps, Json, IOUtils

Recs == ndJsonDeserialize(IOEnv.TRACES)
PropSel == IOEnv.PROP

VARIABLE ri

PropsOf(p, cfg, obs) ==
  CASE p = "C01" -> C01(cfg, obs)
    [] p = "C02" -> C02(cfg, obs)
    [] p = "C03" -> C03(cfg, obs)
    [] p = "C04" -> C04(cfg, obs)
    [] p = "C05" -> C05(cfg, obs)
    [] p = "C07" -> C07(cfg, obs)
    [] p = "C17" -> C17(cfg, obs)
    [] OTHER -> {}

TInit == ri \in 1..Len(Recs)
TNext == UNCHANGED ri
TSpec == TInit /\ [][TNext]_ri

Judge ==
  LET w == PropsOf(PropSel, Recs[ri].cfg, Recs[ri].obs) IN
  \/ w = {}
  \/ PrintT(<<"VIOL", ToJson([id |-> Recs[ri].id, w |-> w])>>)
=============================================================================
