----------------------------- MODULE TraceModel -----------------------------
(***************************************************************************)
(* Trace validation against the detailed model: is a trace recorded from   *)
(* the real code a behaviour of Callbag.tla?                               *)
(*                                                                         *)
(* Recs is an NDJSON file of records [id, ci, script, obs] written by the  *)
(* harness (random runs at bounds TLC does not enumerate).  The model is    *)
(* run with one more variable ti (which record); the action constraint      *)
(* Follow keeps only steps whose script and obs stay prefixes of the        *)
(* record, so the search is linear in the trace (the script carries the     *)
(* argument of every nondeterministic choice).  A record is accepted when   *)
(* a finished state with exactly its script and obs is reached; accepted    *)
(* ids are printed, the driver reports the others as DRIFT.                 *)
(***************************************************************************)
EXTENDS Callbag, SequencesExt, Json, IOUtils

Recs == ndJsonDeserialize(IOEnv.TRACES)

VARIABLE ti

TMInit == Init /\ ti \in 1..Len(Recs) /\ ci = Recs[ti].ci
TMNext == Next /\ UNCHANGED ti
TMSpec == TMInit /\ [][TMNext]_<<vars, ti>>

Follow == IsPrefix(script', Recs[ti].script) /\ IsPrefix(obs', Recs[ti].obs)

Accept ==
  (Finished /\ script = Recs[ti].script /\ obs = Recs[ti].obs)
    => PrintT(<<"ACC", ToJson([id |-> Recs[ti].id])>>)
=============================================================================
