SPECIFICATION TSpec
INVARIANT Judge
CHECK_DEADLOCK FALSE
