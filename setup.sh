#!/bin/sh
# Build the verification framework from files on disk only (offline).
set -e
cd "$(dirname "$0")"
export CARGO_NET_OFFLINE=true
# 1. specs parse (the PlusCal translation is committed inside Callbag.tla)
( cd spec && for m in Callbag CallbagProps TraceProps; do tla-sany $m.tla >/dev/null 2>&1 || { echo "SANY failed on $m"; exit 2; }; done )
# 2. harness builds against /repo's current tree
( cd harness && CARGO_TARGET_DIR=target cargo build --offline --quiet && CARGO_TARGET_DIR=target-tr cargo build --offline --quiet --features tracing && RUSTFLAGS="--cfg callbag_verif --check-cfg cfg(callbag_verif)" CARGO_TARGET_DIR=target-vf cargo build --offline --quiet )
echo "setup ok"
