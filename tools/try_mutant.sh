#!/bin/bash
# usage: try_mutant.sh <worktree> <patch.diff> <prop> [<prop>...]
# applies the patch inside the scratch worktree (never /repo), runs the quick checks against it, reverts
WT=$1; P=$2; shift; shift
cd "$WT" && git checkout -q -- . && git apply "$P" || { echo "patch failed"; exit 2; }
cd /verif
for prop in "$@"; do
  out=$(VERIF_REPO=$WT ./check $prop --tier quick --jobs ${JOBS:-4} 2>&1); rc=$?
  echo "== $prop rc=$rc $(echo "$out" | grep -cE '^VIOLATION') violation lines, drift lines $(echo "$out" | grep -cE '^DRIFT')"
  echo "$out" | grep -E "VIOLATION|TOOL|rror" | cut -c1-200 | head -3
done
git -C "$WT" checkout -q -- .
