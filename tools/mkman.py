#!/usr/bin/env python3
"""regenerates /verif/MANIFEST.json (kept valid at all times)"""
import json, subprocess
props = [json.loads(l) for l in open('/verif/properties.jsonl')]
GEN = "all sequential operator families (map/filter/scan/take/skip over a puppet, merge!/concat!/combine! of 1-3 puppets, merge! with late greeters, flatten over an outer puppet of inner puppets, share with 1-2 probe sinks; variants where the sink disposes with Error; re-entrant variants where a sink makes an upstream emit/end/fail/greet from inside any of its handlers; sinks acting twice per handler; two subscriptions of one output; compositions of operators; the crate's sources from_iter and interval by themselves; degenerate parameters take(0), skip(0), merge!() and concat!() of no member)"
claimed = {
 "C01": GEN,
 "C02": GEN + ", failures offered at every decision point",
 "C03": GEN + ", the sink disposing at top level and inside every handler",
 "C04": GEN + "; per upstream subscription clauses double_stop, after_self_end, msg_after_stop, orphan, resubscribed, subscribe_after_over, error_not_relayed",
 "C05": GEN + " with member failure offered at every decision point",
 "C06": "pipelines from_iter(xs) |> stages |> for_each(f) over the stage catalogue (map, filter, scan, take, skip, concat! on either side, map-then-flatten), all inputs over a small alphabet up to a length bound and the unbounded iterator, judged against the list semantics Sem (TLA+), with next()-laziness clauses",
 "C07": "unary operator families map/filter/scan/take/skip over one puppet, all sink policies, re-entrant emission, chains of unary operators, two subscriptions of one scan/skip/take instance",
 "C08": "merge! of 1-3 puppets incl. late greeters",
 "C09": "concat! of 1-3 puppets, any-mode and pull-mode members",
 "C10": "combine! of 1-3 puppets",
 "C11": "flatten over an outer puppet emitting inner puppets, push/pull/any at both levels",
 "C12": "share with 1-3 probe sinks attaching/detaching/pulling at every point, restart after end",
 "C13": "two probe sinks subscribed to the same (non-share) output value for every operator family, from_iter and interval: TLC enumerates the two-subscription behaviours of the model; each is run on the real code together with the two solo runs driven by each subscription's own decisions; the projection of the two-subscription trace onto each subscription must equal the solo trace",
 "C14": "from_iter, map/filter/scan/take/skip, concat!, flatten over pull-mode puppets (each Pull answered inside the call or deferred), sinks sending at most one Pull per message received",
 "C15": "from_iter over iterators of length 0-3 and the unbounded one, 1-2 probe sinks, every pull/dispose pattern",
 "C16": "interval with periods 1-2, 1-3 subscriptions, mock Nurse+Timer with virtual clock, spawn failures Spawn/Closed",
 "C18": "merge! and combine! of 2-3 members delivering from 2-3 threads (each a few data then Terminate, at most one failing), greetings done sequentially first: TLC explores every interleaving of the model at the granularity of the shared-state accesses (one label per access, the same points at which the code built with --cfg callbag_verif calls the scheduler hook) with monitor invariants; TLC-simulated schedules are replayed on the real code under the deterministic scheduler and the traces compared; preemption-bounded enumeration and random schedules on the real code, every trace judged by the TLA+ predicate",
 "C19": "take(n), n in 1..3, over a puppet delivering from 2-3 threads and over merge! / combine! of two member threads; same method as C18",
 "C20": "all sequential families, sources, interval and pipelines replayed on three builds/configurations of the real code (feature off; on without subscriber; on with a TRACE subscriber); the three traces (including closure-invocation events) must be equal event for event",
 "C17": GEN + "; every expect/unwrap/panic! site is a branch of the model",
}
checks = []
for p in props:
    i = p['id']
    if i in claimed:
        checks.append({
          "property_id": i,
          "quick_cmd": f"./check {i} --tier quick",
          "thorough_cmd": f"./check {i} --tier thorough",
          "evidence_file": f"/verif/evidence/{i}.json",
          "replay_cmd_template": f"./check {i} --replay {{path}}",
          "engine": "tla-model+trace-validation",
          "level_claimed": {"category": "model_checking",
            "text": "Bounded-exhaustive. TLC enumerates every behaviour of the PlusCal model spec/Callbag.tla (one procedure branch per Rust closure, explicit call stack, conformant maximally nondeterministic environment) for: " + claimed[i] + ". Every model behaviour is replayed on the real closures; the real code's own decision tree is enumerated by DFS with the same bounds and the two behaviour sets must coincide (else DRIFT is reported); seeded random runs at larger bounds. Every recorded trace of the real code is judged by the TLA+ predicate of the property (spec/CallbagProps.tla) evaluated by TLC. A VIOLATION is only ever reported for a trace executed by the real code.",
            "design_ref": "DESIGN.md §2, §5, §7"},
          "level_note": ("Trusted: TLC, the PlusCal translator, the Json community module; the harness environment components (their logic is duplicated in PlusCal and compared trace by trace on every run); bounds per family are in the evidence file; " + ("sequentially consistent interleavings at the granularity of the instrumented accesses (hooks in /repo behind --cfg callbag_verif); Acquire/Release reorderings are not explored." if i in ("C18","C19") else "sequential execution only for this property.")),
          "technique": "TLA+/PlusCal model checked with TLC + trace validation both ways (spec behaviours replayed on the code; code traces judged by TLA+ predicates)"
        })
na = [{"property_id": p["id"], "reason": "check under construction (see DESIGN.md §7); not yet claimed"} for p in props if p['id'] not in claimed]
commits = subprocess.run(["git", "-C", "/repo", "log", "--format=%h %s"], capture_output=True, text=True).stdout.splitlines()
hook_commits = [c.split()[0] for c in commits if "verif hook" in c]
m = {"version": 1, "setup_cmd": "./setup.sh",
 "hooks": {"guard": "callbag_verif", "enable": "RUSTFLAGS='--cfg callbag_verif --check-cfg cfg(callbag_verif)' (set by ./check when it builds the harness flavour `verif`)", "baseline_off_cmd": "cd /repo && cargo test --workspace --no-fail-fast --offline", "source_commits": hook_commits, "add_only": True},
 "engines": [{"name": "tla-model+trace-validation", "path": "/verif/check", "serves_properties": sorted(claimed), "kind_free_text": "PlusCal/TLA+ specification checked by TLC; Rust harness replays TLC behaviours on the real code and records traces that TLC judges"}],
 "checks": checks, "not_applicable": na,
 "notes": "See DESIGN.md. known_findings.json lists genuine defects recorded (open) or repaired (fixed)."}
json.dump(m, open('/verif/MANIFEST.json', 'w'), indent=1)
print("claimed", len(checks), "not claimed", len(na))
