#!/usr/bin/env python3
"""collect confirmed seeded mutants from the scratch worktrees into /verif/seeded/<id>/
usage: collect_seeded.py <worktree-name> <mutant-name> <property> <caught_by (comma list or 'none')> <needs...>"""
import json, os, shutil, sys
wt, m, prop, caught = sys.argv[1:5]
needs = " ".join(sys.argv[5:])
src = f"/tmp/wt/{wt}/mutants/{m}"
assert os.path.exists(os.path.join(src, ".confirmed")), "not confirmed"
dst = f"/verif/seeded/{prop}_{m.replace('-', '_')}"
os.makedirs(dst, exist_ok=True)
for f in ("patch.diff", "demo.rs", "notes.md"):
    if os.path.exists(os.path.join(src, f)):
        shutil.copy(os.path.join(src, f), os.path.join(dst, f))
meta = {
    "breaks_property": prop,
    "origin": "written by an independent sub-agent given only the property text and a scratch worktree of /repo",
    "needs_to_manifest": needs,
    "confirmed": {
        "how": "tools/confirm_mutant.sh in the scratch worktree: patch applied -> full suite 61 passed / 0 failed; demo.rs (as tests/zz_demo.rs) fails; patch reverted -> demo passes",
        "log": open(os.path.join(src, "confirm.log")).read() if os.path.exists(os.path.join(src, "confirm.log")) else "confirmed in an earlier battery run (same script)",
    },
    "checks_run": "tools/battery.sh: VERIF_REPO=<scratch worktree with patch applied> ./check <prop> --tier quick",
    "caught_by": [] if caught == "none" else caught.split(","),
}
json.dump(meta, open(os.path.join(dst, "meta.json"), "w"), indent=1)
print(dst)
