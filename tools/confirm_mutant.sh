#!/bin/bash
# usage: confirm_mutant.sh <worktree> <mutant_dir>   -- confirms (suite passes with patch, demo fails with, passes without)
# prints CONFIRMED or NOT-CONFIRMED; leaves the worktree reverted
WT=$1; MD=$2
cd "$WT" || exit 2
git checkout -q -- . ; rm -f tests/zz_demo.rs
git apply "$MD/patch.diff" || { echo "NOT-CONFIRMED: patch does not apply"; exit 1; }
# (the repository's timing-based tests flake when the machine is heavily loaded: up to three attempts)
for attempt in 1 2 3; do
  cargo test --workspace --no-fail-fast --offline > /tmp/confirm_suite_$$.log 2>&1
  fails=$(grep -E "^test result" /tmp/confirm_suite_$$.log | awk '{s+=$6} END {print s+0}')
  passes=$(grep -E "^test result" /tmp/confirm_suite_$$.log | awk '{s+=$4} END {print s+0}')
  [ "$fails" = "0" ] && [ "$passes" -ge 61 ] && break
  echo "suite attempt $attempt: passed=$passes failed=$fails ($(grep -E '^test .* FAILED' /tmp/confirm_suite_$$.log | head -3 | tr '\n' ' '))"
done
echo "suite with mutation: passed=$passes failed=$fails"
cp "$MD/demo.rs" tests/zz_demo.rs
# DEMO_RUSTFLAGS / DEMO_FEATURES: how the demo (not the suite) is built, e.g. the callbag_verif hooks or --features tracing
RUSTFLAGS="$DEMO_RUSTFLAGS" cargo test --offline $DEMO_FEATURES --test zz_demo > /tmp/confirm_demo1_$$.log 2>&1; rc1=$?
echo "demo with mutation: rc=$rc1"
git checkout -q -- src
RUSTFLAGS="$DEMO_RUSTFLAGS" cargo test --offline $DEMO_FEATURES --test zz_demo > /tmp/confirm_demo2_$$.log 2>&1; rc2=$?
echo "demo without mutation: rc=$rc2"
rm -f tests/zz_demo.rs
git checkout -q -- .
if [ "$fails" = "0" ] && [ "$passes" -ge 61 ] && [ $rc1 -ne 0 ] && [ $rc2 -eq 0 ]; then echo CONFIRMED; else echo NOT-CONFIRMED; tail -5 /tmp/confirm_demo2_$$.log; fi
rm -f /tmp/confirm_*_$$.log
