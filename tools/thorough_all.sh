#!/bin/bash
# usage: thorough_all.sh [<prop>...]   runs the thorough commands once (sequentially) and prints the verdict lines
props="$@"; [ -z "$props" ] && props=$(for i in $(seq -w 1 20); do echo C$i; done)
for p in $props; do
  t0=$(date +%s)
  out=$(./check $p --tier thorough --jobs 4 2>&1); rc=$?
  echo "$p rc=$rc $(( $(date +%s) - t0 ))s $(echo "$out" | grep -cE '^VIOLATION') violations $(echo "$out" | grep -cE '^DRIFT') drift"
  echo "$out" | grep -E "^VIOLATION|^DRIFT|TOOL|MODEL-DEV" | head -3
done
echo THOROUGH-DONE
