#!/bin/bash
# runs every thorough command once (sequentially) and prints the verdict lines
for i in $(seq -w 1 20); do
  p=C$i
  t0=$(date +%s)
  out=$(./check $p --tier thorough --jobs 4 2>&1); rc=$?
  echo "$p rc=$rc $(( $(date +%s) - t0 ))s $(echo "$out" | grep -cE '^VIOLATION') violations $(echo "$out" | grep -cE '^DRIFT') drift"
  echo "$out" | grep -E "^VIOLATION|^DRIFT|TOOL|MODEL-DEV" | head -3
done
echo THOROUGH-DONE
