import json,sys
pid=sys.argv[1]; wt=sys.argv[2]
p=[json.loads(l) for l in open('/verif/properties.jsonl') if json.loads(l)['id']==pid][0]
print(f"""You are helping test a verification effort by playing the role of a developer who introduces a subtle regression.

Repository: a git worktree of the Rust crate `callbag` (teohhanhui/callbag-rs, a small port of the callbag reactive/iterable stream spec) at {wt} . Work ONLY inside {wt} (it is your own scratch worktree; never touch /repo or /verif, do not read anything under /verif). The sandbox has no network; build with `cargo ... --offline`. The existing test suite is run with: `cd {wt} && cargo test --workspace --no-fail-fast --offline` (61 tests, takes ~1-2 min the first time).

Property that should hold for this crate (id {pid}: {p['title']}):

STATEMENT: {p['statement']}

QUANTIFIER: {p['quantifier']['text']}

Your task: produce TWO different, independent changes ("mutations") to the crate's source (files under src/ only, no changes to tests or Cargo.toml) each of which
  (a) still compiles,
  (b) still passes the entire existing test suite (all 61 tests),
  (c) BREAKS the property above, in a way that needs something specific to manifest — a particular interleaving/nesting of calls, a failure at a particular point, a multi-step sequence of operations, an unusual input or arity, or two cooperating sites that each look fine alone — NOT something that ordinary use would expose at once. Make them realistic: the kind of slip a maintainer could make in a refactoring (a reordered pair of statements, a condition slightly off, a flag not reset/checked, state hoisted or shared, a message relayed as a different message in one rarely-taken arm, etc.). The two mutations should touch different operators or different mechanisms.

For each mutation deliver, in {wt}/mutants/<name>/ :
  - patch.diff  : `git diff` of the change against HEAD (apply-able with `git apply` at the repository root),
  - demo.rs     : a demonstration — an integration test file (to be placed as tests/<something>.rs; it may use only the crate's public API and the dev-dependencies already in Cargo.toml, e.g. crossbeam-queue, and must not need network) that FAILS with the mutation applied and PASSES on the unmodified HEAD. The demo should build the situation deterministically with hand-written callbag sources/sinks (closures implementing the callbag protocol: `Message::Handshake/Data/Pull/Error/Terminate`), not with timers or sleeps.
  - notes.md    : which part of the property it breaks, what exactly is needed for it to manifest, and the exact commands you ran with their outcome.

Procedure you must follow for each mutation: apply it; run the full existing suite and confirm 61 passed / 0 failed; run your demo and confirm it fails; revert the mutation (`git checkout -- src`) and confirm the demo passes on HEAD. Leave the worktree with src/ reverted to HEAD at the end (the mutants/ directory stays, untracked). If a `[[test]]` entry is needed for the demo do not edit Cargo.toml permanently — tests placed in tests/*.rs are auto-discovered only if no explicit [[test]] list disables it; in this crate autodiscovery works for new files in tests/ (verify), otherwise explain how you ran it.

Finally report, for each mutation: name, one-paragraph description, and confirmation of the three runs (suite passes with mutation, demo fails with mutation, demo passes without). Delete the `target` directory of the worktree when you are completely done (`rm -rf {wt}/target`) to save disk.""")
