#!/bin/bash
# runs every quick check against /repo (two at a time) so that evidence/*.json is current; prints one line per check
cd /verif
run() { out=$(./check $1 --tier quick --jobs 4 2>&1); rc=$?; echo "$1 rc=$rc $(echo "$out" | grep -cE '^VIOLATION') violations $(echo "$out" | grep -cE '^DRIFT') drift $(echo "$out" | grep -cE '^KNOWN-FINDING') known"; echo "$out" | grep -E "^VIOLATION|^DRIFT|TOOL" | head -3; }
export -f run
for i in $(seq -w 1 20); do echo C$i; done | xargs -P 2 -I{} bash -c "run {}"
echo REFRESH-DONE
