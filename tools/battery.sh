#!/bin/bash
# usage: battery.sh <listfile>   lines: <worktree-name> <mutant-name> <prop> [<prop>...]
# Confirms each seeded mutant in its scratch worktree and runs the quick checks against the mutated
# worktree (never /repo).  Runs from a snapshot of the committed /verif so that ongoing edits do not
# disturb it.
SNAP=/tmp/vsnap_$$
rm -rf $SNAP; git -C /verif worktree prune; git -C /verif worktree add -q --detach $SNAP HEAD || exit 2
while read wt m props; do
  [ -z "$wt" ] && continue
  echo "##### $wt/$m"
  if [ ! -f /tmp/wt/$wt/mutants/$m/.confirmed ]; then
    $SNAP/tools/confirm_mutant.sh /tmp/wt/$wt /tmp/wt/$wt/mutants/$m 2>&1 | tail -4 | tee /tmp/wt/$wt/mutants/$m/confirm.log
    grep -q "^CONFIRMED" /tmp/wt/$wt/mutants/$m/confirm.log && touch /tmp/wt/$wt/mutants/$m/.confirmed
  else echo "CONFIRMED (earlier)"; fi
  cd /tmp/wt/$wt && git checkout -q -- . && git apply mutants/$m/patch.diff || { echo "patch failed"; continue; }
  for prop in $props; do
    out=$(cd $SNAP && VERIF_REPO=/tmp/wt/$wt ./check $prop --tier quick --jobs ${JOBS:-4} 2>&1); rc=$?
    echo "== $prop rc=$rc violation_lines=$(echo "$out" | grep -cE '^VIOLATION') drift_lines=$(echo "$out" | grep -cE '^DRIFT')"
    echo "$out" | grep -E "^VIOLATION|TOOL|rror" | cut -c1-200 | head -3
  done
  git -C /tmp/wt/$wt checkout -q -- .
done < "$1"
git -C /verif worktree remove --force $SNAP
echo BATTERY-DONE
