#!/bin/bash
# Unbounded-data complement to C18: Apalache discharges the inductive invariant of spec/proofs/EndCounter.tla
# (4 member threads): completion is delivered at most once, and exactly once when every member has decided.
cd "$(dirname "$0")/../spec/proofs" || exit 2
OUT=$(mktemp -d)
ok=1
run() { timeout 600 apalache-mc check --out-dir=$OUT --cinit=ConstInit4 "$@" EndCounter.tla 2>&1 | grep -q "EXITCODE: OK" || ok=0; }
run --init=Init --inv=IndInv --length=0
run --init=IndInv --inv=IndInv --length=1
run --init=IndInv --inv=AtMostOnce --length=0
run --init=IndInv --inv=ExactlyOnceAtEnd --length=0
rm -rf $OUT _apalache-out 2>/dev/null
if [ $ok = 1 ]; then echo PROVED; exit 0; else echo NOT-PROVED; exit 1; fi
