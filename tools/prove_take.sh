#!/bin/bash
# Unbounded complement to C19: Apalache discharges the inductive invariant of spec/proofs/TakeCounter.tla
# (4 threads, every n >= 0).  Prints PROVED or NOT-PROVED; exit 0 iff proved.
cd "$(dirname "$0")/../spec/proofs" || exit 2
OUT=$(mktemp -d)
ok=1
run() { timeout 600 apalache-mc check --out-dir=$OUT --cinit=ConstInit4 "$@" TakeCounter.tla 2>&1 | grep -q "EXITCODE: OK" || ok=0; }
run --init=Init --inv=IndInv --length=0
run --init=IndInv --inv=IndInv --length=1
run --init=IndInv --inv=NoOverDelivery --length=0
rm -rf $OUT _apalache-out 2>/dev/null
if [ $ok = 1 ]; then echo PROVED; exit 0; else echo NOT-PROVED; exit 1; fi
