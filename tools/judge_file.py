import sys, json, collections
sys.path.insert(0,'/verif')
from vlib import tlc
f=sys.argv[1]
for prop in sys.argv[2:]:
    v,st,dt=tlc.judge('/tmp/cbv/tp',f,prop)
    c=collections.Counter()
    for r in v:
        for w in r['w']: c[(w['prop'],w['clause'],w['fam'],w['ctx'])]+=1
    print(prop, 'records with witnesses:',len(v),'stats',st,f'{dt:.1f}s')
    for k,n in c.items(): print('   ',k,n)
    if v: print('   e.g.', v[0]['id'], v[0]['w'][0])
