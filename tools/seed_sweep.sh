#!/bin/bash
# usage: seed_sweep.sh "<seeds>" <prop>...   -- quick checks under several seeds; prints any alarm
seeds=$1; shift
for s in $seeds; do for p in "$@"; do
  out=$(VERIF_SEED=$s ./check $p --tier quick --jobs 3 2>&1); rc=$?
  echo "seed=$s $p rc=$rc $(echo "$out" | grep -cE '^VIOLATION') violations $(echo "$out" | grep -cE '^DRIFT') drift"
  echo "$out" | grep -E "^VIOLATION|^DRIFT|TOOL" | head -3
done; done
echo SWEEP-DONE
