# dev tool: compare the behaviour set of the TLA+ model with the DFS of the harness for one family (uses /tmp/cbv as scratch)
import sys, json, subprocess, time
sys.path.insert(0,'/verif')
from vlib import scen, tlc
def compare(name, cfg, workers=4):
    tlc.write_mc("/tmp/cbv/mc", "MC_"+name, cfg)
    rc,out,dt = tlc.run_tlc('/tmp/cbv/mc','MC_'+name, workers=workers)
    st=tlc.parse_stats(out)
    beh = tlc.parse_tagged(out,'BEH')
    if not tlc.tlc_ok(rc,out):
        print(name,'TLC FAILED'); print(tlc.error_excerpt(out,60)); 
    open('/tmp/cbv/sc.ndjson','w').write(json.dumps({"id":1,"fam":cfg['fam'],"drive":"dfs","cfg":cfg})+"\n")
    t0=time.time()
    p=subprocess.run(['/verif/harness/target/debug/cbharness','/tmp/cbv/sc.ndjson','/tmp/cbv/tr.ndjson'],capture_output=True,text=True)
    if p.returncode!=0: print('harness failed',p.stderr[-2000:]); return
    tr=[json.loads(l) for l in open('/tmp/cbv/tr.ndjson')]
    key=lambda r: json.dumps(r['script'])
    B={key(b):b for b in beh}; T={key(t):t for t in tr}
    bad=[k for k in set(B)&set(T) if B[k]['obs']!=T[k]['obs']]
    print(f"{name}: tlc {dt:.1f}s states={st} beh={len(B)} impl={len(T)} common={len(set(B)&set(T))} obs_mismatch={len(bad)} harness {time.time()-t0:.1f}s")
    def show(k):
        print(' script',k)
    for k in bad[:2]:
        show(k)
        for a,b in zip(B[k]['obs'],T[k]['obs']):
            if a!=b: print('   MODEL',a,'\n   IMPL ',b); break
        print('   lens',len(B[k]['obs']),len(T[k]['obs']))
    for k in sorted(set(B)-set(T),key=len)[:2]: print('  model only',k)
    for k in sorted(set(T)-set(B),key=len)[:2]: print('  impl only',k); print('    obs', [ (e['k'],e['fr'],e['to'],e['t'],e['v']) for e in T[k]['obs'] if e['k']!='r'])
if __name__=='__main__':
    which=sys.argv[1:]
    W=dict(maxData=2,maxTop=3,maxPull=2,allowFail=True)
    fams={
     'map': scen.with_bounds(scen.unary('map',f='inc'),'map',**W),
     'filter': scen.with_bounds(scen.unary('filter',p='even'),'filter',**W),
     'scan': scen.with_bounds(scen.unary('scan',r='lin',seed=5),'scan',**W),
     'take1': scen.with_bounds(scen.unary('take',n=1),'take',**W),
     'skip1': scen.with_bounds(scen.unary('skip',n=1),'skip',**W),
     'merge1': scen.with_bounds(scen.nary('merge',1),'merge',**W),
     'merge2': scen.with_bounds(scen.nary('merge',2),'merge',maxData=1,maxTop=3,maxPull=1,allowFail=True),
     'merge2late': scen.with_bounds(scen.nary('merge',2,late=True),'merge',maxData=1,maxTop=3,maxPull=1,allowFail=True),
     'concat2': scen.with_bounds(scen.nary('concat',2),'concat',maxData=1,maxTop=3,maxPull=1,allowFail=True),
     'combine2': scen.with_bounds(scen.nary('combine',2),'combine',maxData=1,maxTop=3,maxPull=1,allowFail=True),
     'flatten2': scen.with_bounds(scen.flatten_g(2),'flatten',maxData=1,maxTop=3,maxPull=1,allowFail=True),
     'share2': scen.with_bounds(scen.share_g(),'share',sinks=['probe','probe'],maxData=1,maxTop=4,maxPull=1,allowFail=True),
    }
    for n,c in fams.items():
        if not which or n in which: compare(n,c)

def extra():
    W=dict(maxData=2,maxTop=4,maxPull=3,allowFail=True)
    F={}
    F['fromiter3']=scen.with_bounds({"nodes":[{"id":1,"kind":"from_iter","items":[1,2,3]}],"root":1},'from_iter',**W)
    F['fromiter_unb']=scen.with_bounds({"nodes":[{"id":1,"kind":"from_iter","unbounded":True,"limit":12}],"root":1},'from_iter',**W)
    F['interval2']=scen.with_bounds({"nodes":[{"id":1,"kind":"interval","period":2}],"root":1},'interval',sinks=['probe','probe'],maxData=2,maxTop=5,maxPull=0,allowFail=True)
    F['pipe1']=scen.with_bounds({"nodes":[{"id":1,"kind":"from_iter","items":[1,2,3]},{"id":2,"kind":"take","n":2,"ups":[1]}],"root":2},'pipeline',sinks=['foreach'],maxTop=2)
    F['pipe2']=scen.with_bounds({"nodes":[{"id":1,"kind":"from_iter","items":[1,2,3]},{"id":2,"kind":"flatmap","g":"upto","ups":[1]},{"id":3,"kind":"filter","p":"odd","ups":[2]}],"root":3},'pipeline',sinks=['foreach'],maxTop=2)
    F['feraw']=scen.with_bounds({"nodes":[scen.puppet(1,1,'any')],"root":1},'for_each',sinks=['foreach_raw'],maxData=2,maxTop=4,maxPull=0,allowFail=True)
    return F
if __name__=='__main__' and any(w.startswith('x:') for w in sys.argv[1:]):
    F=extra()
    for w in sys.argv[1:]:
        if w.startswith('x:'): compare(w[2:],F[w[2:]])
