import json,sys
f,id_=sys.argv[1],sys.argv[2]
for l in open(f):
    r=json.loads(l)
    if str(r['id'])==id_:
        print(r['script'])
        d=0
        for i,e in enumerate(r['obs'],1):
            if e['k']=='r': d-=1; continue
            print(f"{i:3d}",'  '*d, e['k'], e['fr'],'->',e['to'],e['t'],e['v'])
            if e['k']=='c': d+=1
