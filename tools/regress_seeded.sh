#!/bin/bash
# usage: [P=3] [JOBS=4] regress_seeded.sh [<seeded-id>...]     (default: all of /verif/seeded)
# For every seeded change: scratch worktree of /repo HEAD, apply seeded/<id>/patch.diff, run the quick check
# of the first property listed in meta.json "caught_by" against it (VERIF_REPO), remove the worktree.
# Runs from a snapshot of the committed /verif, P changes at a time.  Prints CAUGHT / MISSED per change.
SNAP=/tmp/vsnap_r$$
git -C /verif worktree prune; git -C /verif worktree add -q --detach $SNAP HEAD || exit 2
ids="$@"; [ -z "$ids" ] && ids=$(ls /verif/seeded)
one() {
  id=$1; SNAP=$2
  d=/verif/seeded/$id
  prop=$(python3 -c "import json;m=json.load(open('$d/meta.json'));print((m['caught_by'] or [m['breaks_property']])[0])")
  wt=/tmp/wt/R_$id
  git -C /repo worktree add -q --detach $wt HEAD 2>/dev/null || { echo "NOWORKTREE $id"; return; }
  if (cd $wt && git apply $d/patch.diff 2>/dev/null || git apply -C1 $d/patch.diff 2>/dev/null); then
    out=$(cd $SNAP && VERIF_REPO=$wt ./check $prop --tier quick --jobs ${JOBS:-4} 2>&1); rc=$?
    if [ $rc = 1 ] && echo "$out" | grep -q "^VIOLATION property=$prop"; then echo "CAUGHT  $id by $prop"; else echo "MISSED  $id by $prop (rc=$rc)"; fi
  else
    echo "NOAPPLY $id"
  fi
  git -C /repo worktree remove --force $wt; rm -rf /tmp/vw_tmp_wt_R_$id
}
export -f one
echo $ids | tr ' ' '\n' | xargs -P ${P:-3} -I{} bash -c "one {} $SNAP"
git -C /verif worktree remove --force $SNAP
echo REGRESS-DONE
