#!/usr/bin/env python3
"""dev tool: one TLC run with -coverage 1 over the union of the small sequential scenarios of the quick plans;
prints the PlusCal labels (actions) that were never taken.  usage: coverage_run.py [workdir]"""
import sys, re, json
sys.path.insert(0, '/verif')
from vlib import plan, tlc
wd = sys.argv[1] if len(sys.argv) > 1 else '/tmp/cbv/cov'
cfgs = []
seen = set()
SKIP = ("merge3", "combine3", "concat3", "share2", "merge2_late", "flatten2", "combine2", "merge2", "concat2", "flatten2_d2")
for prop in ("C01", "C04", "C17", "C08", "C09", "C10", "C11", "C12", "C14", "C15", "C16", "C13"):
    for name, c, _ in plan.plan(prop, "quick"):
        if name in SKIP or name.startswith("pipes"):
            continue
        for x in (c if isinstance(c, list) else [c]):
            k = json.dumps(x, sort_keys=True)
            if k not in seen and not x.get("thr"):
                seen.add(k); cfgs.append(x)
cfgs += [c for _, cs, _ in plan.plan("C06", "quick")[:1] for c in cs[:120]]
print(len(cfgs), "scenarios")
tlc.write_mc(wd, "MC_cov", cfgs, keep_obs=False, print_beh=False)
rc, out, dt = tlc.run_tlc(wd, "MC_cov", workers=8, timeout=3000, xmx="12g", extra_args=["-coverage", "1"])
print("tlc", rc, tlc.parse_stats(out), f"{dt:.0f}s")
cov = {}
for m in re.finditer(r"<(\w+) line \d+, col \d+ to line \d+, col \d+ of module Callbag>: (\d+):(\d+)", out):
    cov[m.group(1)] = max(cov.get(m.group(1), 0), int(m.group(3)))
zero = sorted(k for k, v in cov.items() if v == 0)
print(len(cov), "actions;", "never taken:", zero)
