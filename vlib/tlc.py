"""Running TLC: model configurations (MC_*) generated from a scenario cfg, and output parsing."""
import json, os, re, subprocess, shutil, time
from .scen import tla

SPEC_DIR = os.path.join(os.path.dirname(os.path.dirname(os.path.abspath(__file__))), "spec")
JAR = "/opt/veriftools/tla/tla2tools.jar"


class ToolError(Exception):
    pass


def community_cp():
    # the `tlc` wrapper knows the classpath; reuse it
    return None


def unescape_tla_string(s):
    # TLC prints strings with \" and \\ escapes
    return s.replace('\\"', '"').replace("\\\\", "\\")


def write_mc(workdir, name, cfgs, invariants=(), extra_defs="", keep_obs=True, extends=("Callbag",),
             print_beh=True, constraint=None, nthr=0, spec="Spec", action_constraint=None):
    """cfgs: one scenario cfg or a list of them (the model picks one per behaviour: variable ci)"""
    if isinstance(cfgs, dict):
        cfgs = [cfgs]
    os.makedirs(workdir, exist_ok=True)
    for f in os.listdir(SPEC_DIR):
        if f.endswith(".tla"):
            shutil.copy(os.path.join(SPEC_DIR, f), os.path.join(workdir, f))
    mod = [f"---- MODULE {name} ----", "EXTENDS " + ", ".join(extends) + ", Json", "",
           "CFGSv == <<" + ",\n  ".join(tla(c) for c in cfgs) + ">>", ""]
    if print_beh:
        mod.append('PrintBeh == Finished => PrintT(<<"BEH", ToJson([ci |-> ci, script |-> script, obs |-> obs])>>)')
    mod.append(extra_defs)
    mod.append("====")
    with open(os.path.join(workdir, name + ".tla"), "w") as f:
        f.write("\n".join(mod) + "\n")
    c = [f"SPECIFICATION {spec}", "CONSTANTS", "  CFGS <- CFGSv", f"  KeepObs = {'TRUE' if keep_obs else 'FALSE'}",
         f"  NThr = {nthr}", "  defaultInitValue = defaultInitValue", "CHECK_DEADLOCK FALSE"]
    if action_constraint:
        c.append(f"ACTION_CONSTRAINT {action_constraint}")
    if print_beh:
        c.append("INVARIANT PrintBeh")
    for inv in invariants:
        c.append(f"INVARIANT {inv}")
    if constraint:
        c.append(f"CONSTRAINT {constraint}")
    with open(os.path.join(workdir, name + ".cfg"), "w") as f:
        f.write("\n".join(c) + "\n")


def run_tlc(workdir, name, workers=4, timeout=1800, xmx="4g", extra_args=(), env_extra=None, java_opts=""):
    env = dict(os.environ)
    env["JAVA_TOOL_OPTIONS"] = f"-Xss512m -XX:ParallelGCThreads=2 {java_opts}".strip()
    if env_extra:
        env.update(env_extra)
    cmd = ["timeout", str(timeout), "java", f"-Xmx{xmx}", "-cp", tlc_classpath(), "tlc2.TLC",
           "-workers", str(workers), "-metadir", os.path.join(workdir, "states_" + name), "-cleanup",
           "-noGenerateSpecTE", "-config", name + ".cfg", *extra_args, name + ".tla"]
    t0 = time.time()
    p = subprocess.run(cmd, cwd=workdir, env=env, capture_output=True, text=True)
    dt = time.time() - t0
    shutil.rmtree(os.path.join(workdir, "states_" + name), ignore_errors=True)
    out = p.stdout
    if p.returncode == 124:
        raise ToolError(f"TLC timeout on {name} after {timeout}s")
    return p.returncode, out, dt


_cp = None


def tlc_classpath():
    global _cp
    if _cp is None:
        # read the classpath from the tlc wrapper script
        cp = JAR
        w = shutil.which("tlc")
        if w:
            try:
                txt = open(w).read()
                m = re.search(r"-cp\s+\"?([^\s\"]+)", txt)
                if m:
                    cp = m.group(1)
            except Exception:
                pass
        if "CommunityModules" not in cp:
            for cand in ("/opt/veriftools/tla/CommunityModules-deps.jar", "/opt/veriftools/tla/CommunityModules.jar"):
                if os.path.exists(cand):
                    cp = cp + ":" + cand
        _cp = cp
    return _cp


def parse_stats(out):
    """(states generated, distinct states, depth)"""
    m = re.search(r"(\d+) states generated, (\d+) distinct states found, (\d+) states left", out)
    gen, dist = (int(m.group(1)), int(m.group(2))) if m else (0, 0)
    m = re.search(r"depth of the complete state graph search is (\d+)", out)
    depth = int(m.group(1)) if m else 0
    return gen, dist, depth


def parse_tagged(out, tag):
    """lines printed by PrintT(<<tag, json-string>>) -> list of parsed JSON values"""
    res = []
    pre = f'<<"{tag}", "'
    for line in out.splitlines():
        if line.startswith(pre) and line.endswith('">>'):
            res.append(json.loads(unescape_tla_string(line[len(pre):-3])))
    return res


def iter_tagged(out, tag):
    """like parse_tagged, one value at a time and without copying the output"""
    import io
    pre = f'<<"{tag}", "'
    for line in io.StringIO(out):
        line = line.rstrip("\n")
        if line.startswith(pre) and line.endswith('">>'):
            yield json.loads(unescape_tla_string(line[len(pre):-3]))


def tlc_ok(rc, out):
    return rc == 0 and "Model checking completed. No error has been found." in out


def error_excerpt(out, n=40):
    lines = out.splitlines()
    idx = [i for i, l in enumerate(lines) if "Error" in l or "error" in l]
    if not idx:
        return "\n".join(lines[-n:])
    return "\n".join(lines[idx[0]: idx[0] + n])


JUDGE_CHUNK = int(os.environ.get("VERIF_JUDGE_CHUNK", "6000"))


def judge(workdir, trace_file, prop, workers=4, timeout=1800, tag=""):
    """evaluate property `prop` on every record of trace_file with TLC (TraceProps.tla);
    returns (list of {id, w}, stats, seconds).  Large files are judged in chunks (one TLC run each, two at a
    time): TLC reads the whole file into memory, and C13 records carry three runs each."""
    n = sum(1 for _ in open(trace_file))
    if n <= JUDGE_CHUNK:
        return _judge_one(workdir, trace_file, prop, workers, timeout, tag)
    parts = []
    out = None
    with open(trace_file) as f:
        for i, line in enumerate(f):
            if i % JUDGE_CHUNK == 0:
                if out:
                    out.close()
                parts.append(f"{trace_file}.part{len(parts)}")
                out = open(parts[-1], "w")
            out.write(line)
    out.close()
    from concurrent.futures import ThreadPoolExecutor
    t0 = time.time()
    _copy_specs(workdir)
    try:
        with ThreadPoolExecutor(max_workers=2) as ex:
            res = list(ex.map(lambda a: _judge_one(workdir, a[1], prop, max(1, workers // 2), timeout, f"{tag}_p{a[0]}", copy=False),
                              enumerate(parts)))
    finally:
        for q in parts:
            try:
                os.remove(q)
            except OSError:
                pass
    viol = [v for r in res for v in r[0]]
    st = tuple(sum(r[1][k] for r in res) for k in range(2)) + (max(r[1][2] for r in res),) if all(r[1] for r in res) else None
    return viol, st, time.time() - t0


def _copy_specs(workdir):
    os.makedirs(workdir, exist_ok=True)
    for f in os.listdir(SPEC_DIR):
        if f.endswith(".tla") or f.endswith(".cfg"):
            shutil.copy(os.path.join(SPEC_DIR, f), os.path.join(workdir, f))


def _judge_one(workdir, trace_file, prop, workers=4, timeout=1800, tag="", copy=True):
    if copy:
        _copy_specs(workdir)
    name = "TraceProps"
    env = dict(os.environ)
    env["JAVA_TOOL_OPTIONS"] = "-Xss1g -XX:ParallelGCThreads=2"
    env["TRACES"] = os.path.abspath(trace_file)
    env["PROP"] = prop
    meta = os.path.join(workdir, f"states_tp_{prop}_{tag}_{os.getpid()}")
    cmd = ["timeout", str(timeout), "java", "-Xmx6g", "-cp", tlc_classpath(), "tlc2.TLC",
           "-workers", str(workers), "-metadir", meta, "-cleanup", "-noGenerateSpecTE",
           "-config", "TraceProps.cfg", "TraceProps.tla"]
    t0 = time.time()
    p = subprocess.run(cmd, cwd=workdir, env=env, capture_output=True, text=True)
    dt = time.time() - t0
    shutil.rmtree(meta, ignore_errors=True)
    if p.returncode == 124:
        raise ToolError(f"TLC timeout judging {trace_file} for {prop}")
    if not tlc_ok(p.returncode, p.stdout):
        raise ToolError(f"TLC failed judging {trace_file} for {prop}:\n" + error_excerpt(p.stdout, 60))
    return parse_tagged(p.stdout, "VIOL"), parse_stats(p.stdout), dt


def validate_against_model(workdir, name, cfgs, recs, workers=3, timeout=1800):
    """Step 4: which of the recorded traces (dicts with id, ci (1-based index into cfgs), script, obs)
    are behaviours of the model?  returns (set of accepted ids, stats, seconds)"""
    os.makedirs(workdir, exist_ok=True)
    for f in os.listdir(SPEC_DIR):
        if f.endswith(".tla"):
            shutil.copy(os.path.join(SPEC_DIR, f), os.path.join(workdir, f))
    tf = os.path.join(workdir, name + "_recs.ndjson")
    with open(tf, "w") as f:
        for r in recs:
            f.write(json.dumps({"id": r["id"], "ci": r["ci"], "script": r["script"], "obs": r["obs"]}) + "\n")
    mod = [f"---- MODULE {name} ----", "EXTENDS TraceModel", "", "CFGSv == <<" + ",\n  ".join(tla(c) for c in cfgs) + ">>",
           "===="]
    with open(os.path.join(workdir, name + ".tla"), "w") as f:
        f.write("\n".join(mod) + "\n")
    c = ["SPECIFICATION TMSpec", "CONSTANTS", "  CFGS <- CFGSv", "  KeepObs = TRUE", "  NThr = 0",
         "  defaultInitValue = defaultInitValue", "CHECK_DEADLOCK FALSE", "ACTION_CONSTRAINT Follow",
         "INVARIANT Accept"]
    with open(os.path.join(workdir, name + ".cfg"), "w") as f:
        f.write("\n".join(c) + "\n")
    rc, out, dt = run_tlc(workdir, name, workers=workers, timeout=timeout, xmx="6g",
                          env_extra={"TRACES": os.path.abspath(tf)}, java_opts="-Xss1g")
    if not tlc_ok(rc, out):
        raise ToolError(f"TLC failed validating traces against the model ({name}):\n" + error_excerpt(out, 60))
    acc = {a["id"] for a in parse_tagged(out, "ACC")}
    return acc, parse_stats(out), dt
