"""Which scenario families (graphs, peer modes, bounds) are explored for which property and tier."""
from . import scen


def B(tier, **kw):
    """bounds: quick defaults, thorough overrides given as q=(quick, thorough) tuples"""
    out = {}
    for k, v in kw.items():
        out[k] = (v[0] if tier == "quick" else v[1]) if isinstance(v, tuple) else v
    return out


def seq_families(tier):
    """all sequential operator families with puppets and probe sinks (C01-C05, C17 and friends).
    Each entry: name -> (cfg, rand_cfg or None)"""
    q = tier == "quick"
    F = {}
    un = dict(maxData=2 if q else 3, maxTop=3 if q else 4, maxPull=2, allowFail=True, sinkErr=False)
    unE = dict(maxData=1 if q else 2, maxTop=2 if q else 3, maxPull=1, allowFail=True, sinkErr=True)
    big = dict(maxData=4, maxTop=6, maxPull=4, allowFail=True, sinkErr=True)
    for kind, par in (("map", dict(f="inc")), ("filter", dict(p="even")), ("scan", dict(r="lin", seed=5)),
                      ("take", dict(n=1)), ("take", dict(n=2)), ("skip", dict(n=1))):
        nm = kind + (str(par["n"]) if "n" in par else "")
        F[nm] = (scen.with_bounds(scen.unary(kind, **par), kind, **un),
                 scen.with_bounds(scen.unary(kind, **par), kind, **big))
        F[nm + "_serr"] = (scen.with_bounds(scen.unary(kind, **par), kind, **unE), None)
    # re-entrant emission: a listenable upstream emits again from inside the sink's handler
    re = dict(maxData=2, maxTop=3, maxPull=0, allowFail=True, reentrant=True)
    for kind, par in (("map", dict(f="inc")), ("filter", dict(p="even")), ("scan", dict(r="lin", seed=5)),
                      ("take", dict(n=1)), ("take", dict(n=2)), ("skip", dict(n=1))):
        nm = kind + (str(par["n"]) if "n" in par else "")
        F[nm + "_re"] = (scen.with_bounds(scen.unary(kind, mode="push", **par), kind, **re), None)
    # sinks that act twice in one handler (e.g. Pull, then Terminate)
    r2 = dict(maxData=2, maxTop=2 if q else 3, maxPull=2, allowFail=False, maxReact=2)
    for kind, par in (("take", dict(n=2)), ("filter", dict(p="even")), ("skip", dict(n=1))):
        nm = kind + (str(par["n"]) if "n" in par else "")
        F[nm + "_r2"] = (scen.with_bounds(scen.unary(kind, **par), kind, **r2), None)
    F["merge2_r2"] = (scen.with_bounds(scen.nary("merge", 2), "merge", maxData=1, maxTop=2, maxPull=1, allowFail=False,
                                       maxReact=2), None)
    F["concat2_r2"] = (scen.with_bounds(scen.nary("concat", 2), "concat", maxData=1, maxTop=2, maxPull=1, allowFail=False,
                                        maxReact=2), None)
    # two Pulls, so that a Pull can be nested inside the broadcast of another one
    for kind in ("merge", "combine"):
        F[kind + "2_p2"] = (scen.with_bounds(scen.nary(kind, 2), kind, maxData=1, maxTop=2, maxPull=2, allowFail=False,
                                             burst=False), None)
    nre = dict(maxData=2, maxTop=2, maxPull=0, allowFail=False, reentrant=True)
    for kind in ("merge", "concat", "combine"):
        F[kind + "2_re"] = (scen.with_bounds(scen.nary(kind, 2, mode="push"), kind, **nre), None)
    # ... with failures: a sink's Error handler may make a sibling member emit / end (e.g. it reports the error
    # to a subject that feeds the sibling)
    for kind in ("merge", "concat", "combine"):
        F[kind + "2_re_fail"] = (scen.with_bounds(scen.nary(kind, 2, mode="push"), kind, maxData=1, maxTop=2, maxPull=0,
                                                  allowFail=True, reentrant=True), None)
    F["merge2_late_re"] = (scen.with_bounds(scen.nary("merge", 2, mode="push", late=True), "merge", maxData=1, maxTop=3,
                                            maxPull=0, allowFail=False, reentrant=True), None)
    F["flatten2_re"] = (scen.with_bounds(scen.flatten_g(2, "push", "push"), "flatten", maxData=2, maxTop=3,
                                         maxPull=0, allowFail=False, reentrant=True), None)
    F["flatten2_re_fail"] = (scen.with_bounds(scen.flatten_g(2, "push", "push"), "flatten", maxData=1, maxTop=3,
                                              maxPull=0, allowFail=True, reentrant=True, burst=False), None)
    F["share2_re"] = (scen.with_bounds(scen.share_g("push"), "share", sinks=["probe", "probe"], maxData=2,
                                       maxTop=3, maxPull=0, allowFail=False, reentrant=True), None)
    # compositions of operators (each property is stated for every operator output, wherever it sits)
    P = scen.puppet
    comps = {
        "take_merge": [P(1, 1), P(2, 2), {"id": 3, "kind": "merge", "ups": [1, 2]}, {"id": 4, "kind": "take", "n": 2, "ups": [3]}],
        "merge_take": [P(1, 1), P(2, 2), {"id": 3, "kind": "take", "n": 1, "ups": [1]}, {"id": 4, "kind": "merge", "ups": [3, 2]}],
        "concat_take": [P(1, 1), P(2, 2), {"id": 3, "kind": "take", "n": 1, "ups": [1]}, {"id": 4, "kind": "concat", "ups": [3, 2]}],
        "scan_filter": [P(1, 1), {"id": 2, "kind": "filter", "p": "odd", "ups": [1]}, {"id": 3, "kind": "scan", "r": "add", "seed": 0, "ups": [2]}],
        "combine_take": [P(1, 1), P(2, 2), {"id": 3, "kind": "take", "n": 1, "ups": [1]}, {"id": 4, "kind": "combine", "ups": [3, 2]}],
        "skip_concat": [P(1, 1), P(2, 2), {"id": 3, "kind": "concat", "ups": [1, 2]}, {"id": 4, "kind": "skip", "n": 1, "ups": [3]}],
        "take_skip_map": [P(1, 1), {"id": 2, "kind": "map", "f": "inc", "ups": [1]}, {"id": 3, "kind": "skip", "n": 1, "ups": [2]},
                          {"id": 4, "kind": "take", "n": 1, "ups": [3]}],
    }
    comps["combine_fromiter"] = [{"id": 1, "kind": "from_iter", "items": [1]}, P(2, 1),
                                 {"id": 3, "kind": "combine", "ups": [1, 2]}]
    comps["merge_fromiter"] = [{"id": 1, "kind": "from_iter", "items": [1]}, P(2, 1), {"id": 3, "kind": "merge", "ups": [1, 2]}]
    # share reached twice inside one composition: concat!(take(1)(shared), shared).  When the shared source ends
    # by itself the second subscription attaches re-entrantly while share is still fanning out that end (the
    # nested situation of finding F2, see F2-reentrant-attach); exhaustive bounds only, no random runs
    comps["concat_take_share"] = [P(1, 1), {"id": 2, "kind": "share", "ups": [1]}, {"id": 3, "kind": "take", "n": 1, "ups": [2]},
                                  {"id": 4, "kind": "concat", "ups": [3, 2]}]
    for nm, nodes in comps.items():
        big = len([n for n in nodes if n["kind"] == "puppet"]) > 1
        F["compo_" + nm] = (scen.with_bounds({"nodes": nodes, "root": len(nodes)}, nodes[-1]["kind"],
                                             maxData=1 if big else 2, maxTop=3 if (q or big) else 4, maxPull=1, allowFail=True),
                            None if nm == "concat_take_share" else
                            scen.with_bounds({"nodes": nodes, "root": len(nodes)}, nodes[-1]["kind"],
                                             maxData=3, maxTop=6, maxPull=3, allowFail=True, sinkErr=True))
    # two subscriptions of the same output (the properties are stated per subscription)
    tb = dict(maxData=1, maxTop=4, maxPull=0, allowFail=True, burst=False, sinks=["probe", "probe"])
    for kind in ("merge", "concat", "combine"):
        F[kind + "2_2s"] = (scen.with_bounds(scen.nary(kind, 2), kind, **tb), None)
    F["take1_2s"] = (scen.with_bounds(scen.unary("take", n=1), "take", **dict(tb, maxPull=1)), None)
    F["flatten2_2s"] = (scen.with_bounds(scen.flatten_g(2), "flatten", **tb), None)
    # two subscriptions whose members only end: every member of both runs can complete (five top-level actions)
    F["concat2_2s_ends"] = (scen.with_bounds(scen.nary("concat", 2), "concat", **dict(tb, maxData=0, maxTop=5, allowFail=False)), None)
    nb = dict(maxData=1 if q else 2, maxTop=3, maxPull=1, allowFail=True)
    nb3 = dict(maxData=1, maxTop=2 if q else 3, maxPull=1, allowFail=True)
    nbig = dict(maxData=3, maxTop=6, maxPull=3, allowFail=True, sinkErr=True)
    for kind in ("merge", "concat", "combine"):
        F[kind + "1"] = (scen.with_bounds(scen.nary(kind, 1), kind, **un), None)
        F[kind + "2"] = (scen.with_bounds(scen.nary(kind, 2), kind, **nb),
                         scen.with_bounds(scen.nary(kind, 2), kind, **nbig))
        F[kind + "2_serr"] = (scen.with_bounds(scen.nary(kind, 2), kind, maxData=1, maxTop=2, maxPull=1,
                                               allowFail=False, sinkErr=True), None)
        F[kind + "3"] = (scen.with_bounds(scen.nary(kind, 3), kind, **nb3),
                         scen.with_bounds(scen.nary(kind, 3), kind, **nbig))
    F["merge2_late"] = (scen.with_bounds(scen.nary("merge", 2, late=True), "merge", **nb),
                        scen.with_bounds(scen.nary("merge", 2, late=True), "merge", **nbig))
    F["flatten2"] = (scen.with_bounds(scen.flatten_g(2), "flatten", **nb),
                     scen.with_bounds(scen.flatten_g(3), "flatten", **nbig))
    # flatten with an outer that can hand out two inners in one scenario (e.g. answer a Pull with the next inner
    # and complete at once), without greeting bursts to keep it small
    F["flatten2_d2"] = (scen.with_bounds(scen.flatten_g(2), "flatten", maxData=2, maxTop=3 if q else 4, maxPull=1,
                                         allowFail=q is False, burst=False), None)
    F["share1"] = (scen.with_bounds(scen.share_g(), "share", sinks=["probe"], **un), None)
    F["share2_serr"] = (scen.with_bounds(scen.share_g(), "share", sinks=["probe", "probe"], maxData=1, maxTop=4, maxPull=1,
                                         allowFail=False, sinkErr=True, burst=False), None)
    F["share2"] = (scen.with_bounds(scen.share_g(), "share", sinks=["probe", "probe"], maxData=1 if q else 2, maxTop=4,
                                    maxPull=1, allowFail=True),
                   scen.with_bounds(scen.share_g(), "share", sinks=["probe", "probe", "probe"], **nbig))
    return F


GENERIC = ["C01", "C02", "C03", "C04", "C05", "C17"]

BIG = ("merge3", "combine3", "concat3", "share2", "merge2_late", "flatten2", "combine2", "merge2", "concat2",
       "take1_2s", "flatten2_d2")


def group_small(fams):
    """one TLC run (one JVM) for a batch of small scenario families: the model picks the scenario in
    its initial state (variable ci)"""
    groups = {}
    out = []
    for n, c, r in fams:
        if n in BIG or isinstance(c, list):
            out.append((n, c, r))
            continue
        kind = c["fam"]
        g = "unary" if kind in ("map", "filter", "scan", "take", "skip") else "nary_small"
        if n.startswith("compo_"):
            g = "compo"
        if n.endswith("_re") or n.endswith("_r2"):
            g += "_re"
        groups.setdefault(g, []).append((n, c, r))
    for g, items in groups.items():
        out.append((g, [c for _, c, _ in items], [r for _, _, r in items if r is not None] or None))
    return out


def plan(prop, tier):
    """list of (name, cfg, rand_cfg) for this property"""
    q = tier == "quick"
    F = seq_families(tier)
    if prop in GENERIC:
        fams = group_small([(n, c, r) for n, (c, r) in F.items()])
        # degenerate parameters and arities: take(0), skip(0), merge!() and concat!() of no member
        eb = dict(maxData=2, maxTop=3, maxPull=2, allowFail=True)
        edge = [scen.with_bounds(scen.unary("take", n=0), "take", **eb), scen.with_bounds(scen.unary("skip", n=0), "skip", **eb),
                scen.with_bounds({"nodes": [{"id": 1, "kind": "merge", "ups": []}], "root": 1}, "merge", **eb),
                scen.with_bounds({"nodes": [{"id": 1, "kind": "concat", "ups": []}], "root": 1}, "concat", **eb)]
        fams.append(("edge", edge, None))
        # the sources of the crate by themselves (the properties speak about "every source and operator")
        fams += [f for f in plan("C15", tier) if f[0] in ("fromiter", "fromiter_serr", "fromiter_r2", "fromiter_r2_serr")]
        fams += [f for f in plan("C16", tier) if f[0] in ("interval_p1_s1", "interval_p1_s2", "interval_serr")]
        if prop == "C01":
            # sinks of a shared source that make each other attach / pull / detach from inside their handlers
            # (for C02-C04 this family only adds further variants of finding F2: snapshot fan-out)
            fams.append(("share2_cross", scen.with_bounds(scen.share_g(), "share", sinks=["probe", "probe"], maxData=1,
                                                         maxTop=4, maxPull=1, allowFail=False, burst=False, cross=True), None))
        if prop == "C01":
            # beyond the quantifier (late greeters are listed for merge! only), kept because it is cheap: a shared
            # source whose upstream greets later than the subscribing call
            g = scen.share_g()
            g["nodes"][0]["late"] = True
            fams.append(("share2_lateup", scen.with_bounds(g, "share", sinks=["probe", "probe"], maxData=1,
                                                          maxTop=3 if tier == "quick" else 4, maxPull=1, allowFail=True), None))
        if prop in ("C04", "C17"):
            # for_each as a sink of the crate, directly on a puppet source (no tap in between)
            for mode in ("any", "pull"):
                g = {"nodes": [scen.puppet(1, 1, mode)], "root": 1}
                fams.append((f"foreach_raw_{mode}", scen.with_bounds(g, "for_each", sinks=["foreach_raw"], maxData=2,
                                                                    maxTop=4, maxPull=0, allowFail=True), None))
        if prop in ("C02", "C03", "C04", "C17"):
            # the README's reactive pipelines: operators over interval (virtual clock)
            for kind, par in (("take", dict(n=2)), ("filter", dict(p="even")), ("map", dict(f="inc"))):
                g = {"nodes": [{"id": 1, "kind": "interval", "period": 1}, dict({"id": 2, "kind": kind, "ups": [1]}, **par)],
                     "root": 2}
                fams.append((f"interval_{kind}", scen.with_bounds(g, kind, maxTop=5 if tier == "quick" else 7, maxPull=1,
                                                                allowFail=False), None))
            gm = {"nodes": [{"id": 1, "kind": "interval", "period": 1}, {"id": 2, "kind": "interval", "period": 2},
                            {"id": 3, "kind": "merge", "ups": [1, 2]}, {"id": 4, "kind": "take", "n": 2, "ups": [3]}], "root": 4}
            # README: pipe!(interval, map, filter, take, for_each)
            g = {"nodes": [{"id": 1, "kind": "interval", "period": 1}, {"id": 2, "kind": "map", "f": "inc", "ups": [1]},
                           {"id": 3, "kind": "filter", "p": "odd", "ups": [2]}, {"id": 4, "kind": "take", "n": 2, "ups": [3]}],
                 "root": 4}
            fams.append(("interval_pipeline", scen.with_bounds(g, "take", sinks=["foreach"], maxTop=6 if tier == "quick" else 8,
                                                               maxPull=0, allowFail=False), None))
            fams.append(("interval_merge_take", scen.with_bounds(gm, "take", maxTop=5 if tier == "quick" else 7, maxPull=0,
                                                                 allowFail=False), None))
        if prop == "C17":
            # C17 only: upstreams that greet later than the subscribing call, for every operator (the other
            # properties quantify over late greeters for merge! only)
            lb = dict(maxData=1, maxTop=3 if tier == "quick" else 4, maxPull=1, allowFail=True)
            for kind, par in (("map", dict(f="inc")), ("filter", dict(p="even")), ("take", dict(n=1)), ("skip", dict(n=1))):
                g = scen.unary(kind, **par)
                g["nodes"][0]["late"] = True
                fams.append((kind + "_lateup", scen.with_bounds(g, kind, **lb), None))
            for kind in ("concat", "combine"):
                fams.append((kind + "2_lateup", scen.with_bounds(scen.nary(kind, 2, late=True), kind, **lb), None))
            g = scen.flatten_g(2)
            for n in g["nodes"]:
                if n["kind"].startswith("puppet"):
                    n["late"] = True
            fams.append(("flatten2_lateup", scen.with_bounds(g, "flatten", **lb), None))
            # C17 only: sinks of a shared source that make each other act from inside their handlers
            fams.append(("share2_cross", scen.with_bounds(scen.share_g(), "share", sinks=["probe", "probe"], maxData=1,
                                                         maxTop=4, maxPull=1, allowFail=False, burst=False, cross=True), None))
            g = scen.share_g()
            g["nodes"][0]["late"] = True
            fams.append(("share2_lateup", scen.with_bounds(g, "share", sinks=["probe", "probe"], **lb), None))
        return fams
    if prop == "C07":
        fams = [(n, c, r) for n, (c, r) in F.items() if c["fam"] in ("map", "filter", "scan", "take", "skip")
                and not n.startswith("compo_")]
        # two subscriptions of one operator instance (per-subscription state: scan's accumulator, skip's counter)
        tb = dict(maxData=2, maxTop=4, maxPull=0, allowFail=False, burst=False, sinks=["probe", "probe"])
        fams.append(("stateful_2s", [scen.with_bounds(scen.unary("scan", mode="push", r="lin", seed=5), "scan", **tb),
                                     scen.with_bounds(scen.unary("skip", mode="push", n=1), "skip", **tb)], None))
        # chains of unary operators (the composition of the list functions)
        P = scen.puppet
        chains = {
            "chain_map_filter_take": [P(1, 1), {"id": 2, "kind": "map", "f": "inc", "ups": [1]},
                                      {"id": 3, "kind": "filter", "p": "even", "ups": [2]}, {"id": 4, "kind": "take", "n": 2, "ups": [3]}],
            "chain_skip_scan": [P(1, 1), {"id": 2, "kind": "skip", "n": 1, "ups": [1]},
                                {"id": 3, "kind": "scan", "r": "lin", "seed": 5, "ups": [2]}],
            "chain_take_take": [P(1, 1), {"id": 2, "kind": "take", "n": 2, "ups": [1]}, {"id": 3, "kind": "take", "n": 1, "ups": [2]}],
            "chain_filter_skip_map": [P(1, 1), {"id": 2, "kind": "filter", "p": "odd", "ups": [1]},
                                      {"id": 3, "kind": "skip", "n": 1, "ups": [2]}, {"id": 4, "kind": "map", "f": "dbl", "ups": [3]}],
        }
        cb = dict(maxData=3, maxTop=3 if q else 4, maxPull=2, allowFail=True)
        fams.append(("chains", [scen.with_bounds({"nodes": nd, "root": len(nd)}, nd[-1]["kind"], **cb) for nd in chains.values()],
                     [scen.with_bounds({"nodes": nd, "root": len(nd)}, nd[-1]["kind"], maxData=5, maxTop=7, maxPull=4,
                                       allowFail=True, sinkErr=True) for nd in chains.values()]))
        return fams
    own = {"C08": "merge", "C09": "concat", "C10": "combine", "C11": "flatten", "C12": "share"}
    if prop in own:
        fams = [(n, c, r) for n, (c, r) in F.items() if c["fam"] == own[prop]
                and (not n.endswith("_serr") or n == "share2_serr") and not n.startswith("compo_")]
        q = tier == "quick"
        if not q and prop in ("C08", "C09", "C10"):
            # thorough only: two members, two data each, four top-level actions, two pulls, failures
            k_ = own[prop]
            fams.append((k_ + "2_deep", scen.with_bounds(scen.nary(k_, 2), k_, maxData=2, maxTop=4, maxPull=2,
                                                         allowFail=True), None))
        if not q and prop == "C12":
            fams.append(("share2_deep", scen.with_bounds(scen.share_g("push"), "share", sinks=["probe", "probe"], maxData=2,
                                                        maxTop=6, maxPull=1, allowFail=True), None))
        if prop == "C08":
            fams.append(("merge2_d2", scen.with_bounds(scen.nary("merge", 2), "merge", maxData=2, maxTop=3 if q else 4,
                                                      maxPull=1, allowFail=False), None))
        if prop == "C09":
            fams.append(("concat2_pull", scen.with_bounds(scen.nary("concat", 2, mode="pull"), "concat", maxData=1,
                                                         maxTop=4, maxPull=3, allowFail=True, c14=True), None))
            fams.append(("concat3_pull", scen.with_bounds(scen.nary("concat", 3, mode="pull"), "concat", maxData=1,
                                                         maxTop=3 if q else 4, maxPull=3, allowFail=False, c14=True), None))
        if prop == "C10":
            fams.append(("combine2_d2", scen.with_bounds(scen.nary("combine", 2), "combine", maxData=2,
                                                        maxTop=3 if q else 4, maxPull=1, allowFail=False), None))
        if prop == "C11":
            fams.append(("flatten2_pull", scen.with_bounds(scen.flatten_g(2, "pull", "pull"), "flatten", maxData=2,
                                                          maxTop=4, maxPull=3, allowFail=True), None))
            fams.append(("flatten2_push", scen.with_bounds(scen.flatten_g(2, "push", "push"), "flatten", maxData=2,
                                                          maxTop=4 if q else 5, maxPull=1, allowFail=False), None))
            # an outer that emits the very same inner source value twice in a row
            fams.append(("flatten1_same", scen.with_bounds(scen.flatten_g(1, "push", "push") if q else scen.flatten_g(1),
                                                          "flatten", maxData=2, maxTop=4 if q else 5,
                                                          maxPull=0 if q else 1, allowFail=False, burst=False), None))
        if prop == "C12":
            fams.append(("share2_push", scen.with_bounds(scen.share_g("push"), "share", sinks=["probe", "probe"],
                                                        maxData=2, maxTop=5, maxPull=1, allowFail=True), None))
            # sinks that make each other attach / detach from inside their handlers (cross-sink nesting)
            fams.append(("share3_cross", scen.with_bounds(scen.share_g("push"), "share", sinks=["probe", "probe", "probe"],
                                                         maxData=2, maxTop=4, maxPull=0, allowFail=False, burst=False,
                                                         cross=True), None))
            fams.append(("share3_cross_r2", scen.with_bounds(scen.share_g("push"), "share", sinks=["probe", "probe", "probe"],
                                                            maxData=2, maxTop=4 if q else 5, maxPull=0, allowFail=False,
                                                            burst=False, cross=True, maxReact=2), None))
            fams.append(("share3_push", scen.with_bounds(scen.share_g("push"), "share",
                                                        sinks=["probe", "probe", "probe"], maxData=1,
                                                        maxTop=4 if q else 5, maxPull=0, allowFail=False), None))
        return fams
    q = tier == "quick"
    if prop == "C14":
        pb = dict(maxData=2 if q else 3, maxTop=4 if q else 5, maxPull=3 if q else 4, allowFail=True, c14=True)
        fams = []
        for kind, par in (("map", dict(f="inc")), ("filter", dict(p="even")), ("filter", dict(p="none")),
                          ("scan", dict(r="add", seed=0)), ("take", dict(n=1)), ("take", dict(n=2)),
                          ("skip", dict(n=1)), ("skip", dict(n=2))):
            nm = kind + str(par.get("n", par.get("p", ""))) + "_pull"
            fams.append((nm, scen.with_bounds(scen.unary(kind, mode="pull", **par), kind, **pb), None))
        # a predicate that rejects the first item and accepts the following ones (a rejection that arrives late,
        # then two accepted items in a row), four items
        fams.append(("filtergt11_pull", scen.with_bounds(scen.unary("filter", mode="pull", p="gt11"), "filter", maxData=4,
                                                        maxTop=5, maxPull=3, allowFail=False, c14=True), None))
        fams.append(("concat2_pull", scen.with_bounds(scen.nary("concat", 2, mode="pull"), "concat", maxData=1,
                                                     maxTop=4, maxPull=3, allowFail=True, c14=True), None))
        fams.append(("concat3_pull", scen.with_bounds(scen.nary("concat", 3, mode="pull"), "concat", maxData=1,
                                                     maxTop=3 if q else 4, maxPull=3, allowFail=False, c14=True), None))
        fams.append(("flatten2_pull", scen.with_bounds(scen.flatten_g(2, "pull", "pull"), "flatten", maxData=2,
                                                      maxTop=4, maxPull=3, allowFail=q is False, c14=True), None))
        # compositions (the property is closed under composition: pullable in, pullable out)
        P = scen.puppet
        comp = [
            [P(1, 1, "pull"), {"id": 2, "kind": "filter", "p": "odd", "ups": [1]}, {"id": 3, "kind": "take", "n": 2, "ups": [2]}],
            [P(1, 1, "pull"), {"id": 2, "kind": "map", "f": "inc", "ups": [1]}, {"id": 3, "kind": "skip", "n": 1, "ups": [2]}],
            [P(1, 1, "pull"), P(2, 2, "pull"), {"id": 3, "kind": "filter", "p": "even", "ups": [1]},
             {"id": 4, "kind": "concat", "ups": [3, 2]}],
            [P(1, 1, "pull"), P(2, 2, "pull"), {"id": 3, "kind": "concat", "ups": [1, 2]},
             {"id": 4, "kind": "filter", "p": "odd", "ups": [3]}],
        ]
        # (not concat! over a take output: take answers the Pull for its n-th item with the Data AND its end,
        # which is outside the premise "exactly one Data or the end per Pull" for concat!'s members)
        fams.append(("c14_compo", [scen.with_bounds({"nodes": nd, "root": len(nd)}, nd[-1]["kind"], maxData=2, maxTop=4,
                                                    maxPull=3, allowFail=False, c14=True) for nd in comp], None))
        fams.append(("fromiter_c14", [scen.with_bounds(from_iter_g(xs), "from_iter", maxTop=4, maxPull=4, c14=True)
                                      for xs in ([], [1], [1, 2], None)], None))
        return fams
    if prop == "C15":
        lens = ([], [1], [1, 2], [1, 2, 3], None)
        b1 = dict(maxTop=5 if q else 6, maxPull=5 if q else 6)
        fams = [("fromiter", [scen.with_bounds(from_iter_g(xs), "from_iter", **b1) for xs in lens],
                 scen.with_bounds(from_iter_g([1, 2, 3, 4, 5, 6]), "from_iter", maxTop=8, maxPull=9, sinkErr=True)),
                ("fromiter_serr", [scen.with_bounds(from_iter_g(xs), "from_iter", maxTop=3, maxPull=3, sinkErr=True)
                                   for xs in lens], None),
                ("fromiter_r2", [scen.with_bounds(from_iter_g(xs), "from_iter", maxTop=3 if q else 4, maxPull=4,
                                                  maxReact=2) for xs in ([1, 2], [1, 2, 3], None)], None),
                # ... Pull, then disposal with Error, in one handler
                ("fromiter_r2_serr", [scen.with_bounds(from_iter_g(xs), "from_iter", maxTop=3, maxPull=3, maxReact=2,
                                                       sinkErr=True) for xs in ([1, 2, 3], None)], None),
                ("fromiter_2sinks", [scen.with_bounds(from_iter_g(xs), "from_iter", sinks=["probe", "probe"],
                                                      maxTop=4 if q else 5, maxPull=2) for xs in ([1], [1, 2], None)], None)]
        return fams
    if prop == "C16":
        fams = []
        for period in (1, 2):
            for ns in (1, 2) if q else (1, 2, 3):
                g = {"nodes": [{"id": 1, "kind": "interval", "period": period}], "root": 1}
                fams.append((f"interval_p{period}_s{ns}",
                             scen.with_bounds(g, "interval", sinks=["probe"] * ns, maxTop=(6 if ns < 3 else 5) if q else (8 if ns < 3 else 6),
                                              maxPull=0, allowFail=True), None))
        # a sink that disposes with Error instead of Terminate
        g = {"nodes": [{"id": 1, "kind": "interval", "period": 1}], "root": 1}
        fams.append(("interval_serr", scen.with_bounds(g, "interval", sinks=["probe", "probe"], maxTop=5, maxPull=1,
                                                       allowFail=False, sinkErr=True), None))
        g = {"nodes": [{"id": 1, "kind": "interval", "period": 3}], "root": 1}
        fams[0] = (fams[0][0], fams[0][1], scen.with_bounds(g, "interval", sinks=["probe"] * 3, maxTop=10, maxPull=1,
                                                          allowFail=True, sinkErr=True))
        return fams
    if prop == "C06":
        return pipeline_plan(tier)
    if prop in ("C18", "C19"):
        def thr_cfg(g, fam, thr):
            return scen.with_bounds(g, fam, passive=True, burst=False, maxData=3, maxTop=1, maxPull=0, thr=thr)

        def progs(pids, data, ends, greet=False):
            return [{"pid": p, "data": d, "end": e, "greet": greet} for p, d, e in zip(pids, data, ends)]
        fams = []
        if prop == "C18":
            for kind in ("merge", "combine"):
                g2 = scen.nary(kind, 2, mode="push")
                g3 = scen.nary(kind, 3, mode="push")
                fams.append((f"thr_{kind}2", thr_cfg(g2, "thr_" + kind, progs([1, 2], [2, 2], ["T", "T"])), None))
                fams.append((f"thr_{kind}2_fail", thr_cfg(g2, "thr_" + kind, progs([1, 2], [2, 1], ["T", "E"])), None))
                fams.append((f"thr_{kind}3", thr_cfg(g3, "thr_" + kind, progs([1, 2, 3], [1, 1, 1] if q else [2, 1, 1],
                                                                               ["T", "T", "T"])), None))
                # the members also greet from their own threads (racing greetings)
                gl2 = scen.nary(kind, 2, mode="push", late=True)
                fams.append((f"thr_{kind}2_greet", thr_cfg(gl2, "thr_" + kind, progs([1, 2], [1, 1], ["T", "T"], True)), None))
                if not q:
                    gl3 = scen.nary(kind, 3, mode="push", late=True)
                    fams.append((f"thr_{kind}3_greet", thr_cfg(gl3, "thr_" + kind, progs([1, 2, 3], [1, 1, 1], ["T", "T", "T"], True)), None))
                if not q:
                    fams.append((f"thr_{kind}3_fail", thr_cfg(g3, "thr_" + kind, progs([1, 2, 3], [1, 1, 1], ["T", "E", "T"])), None))
        else:
            for n in (1, 2) if q else (1, 2, 3):
                g = scen.unary("take", mode="push", n=n)
                fams.append((f"thr_take{n}_2t", thr_cfg(g, "thr_take", progs([1, 1], [2, 2], ["none", "none"])), None))
                fams.append((f"thr_take{n}_3t", thr_cfg(g, "thr_take", progs([1, 1, 1], [1, 1, 1] if q else [2, 1, 1],
                                                                            ["none", "none", "none"])), None))
                # take behind merge! of two members delivering from two threads
                nodes = [scen.puppet(1, 1, "push"), scen.puppet(2, 2, "push"), {"id": 3, "kind": "merge", "ups": [1, 2]},
                         {"id": 4, "kind": "take", "n": n, "ups": [3]}]
                fams.append((f"thr_take{n}_merge", thr_cfg({"nodes": nodes, "root": 4}, "thr_take_merge",
                                                          progs([1, 2], [2, 2], ["T", "T"])), None))
                # ... and behind combine! (the README's pipeline: take over combine! of two intervals)
                nodes = [scen.puppet(1, 1, "push"), scen.puppet(2, 2, "push"), {"id": 3, "kind": "combine", "ups": [1, 2]},
                         {"id": 4, "kind": "take", "n": n, "ups": [3]}]
                fams.append((f"thr_take{n}_combine", thr_cfg({"nodes": nodes, "root": 4}, "thr_take_combine",
                                                            progs([1, 2], [2, 2], ["T", "T"])), None))
        return fams
    if prop == "C20":
        # every message-sending site of every operator: all sequential families (small ones in the quick
        # tier), sources, interval, pipelines
        skipq = ("merge3", "combine3", "concat3", "share2", "merge2_late")
        fams = group_small([(n, c, r) for n, (c, r) in F.items() if not (q and n in skipq)])
        fams += plan("C15", tier)[:2] + plan("C16", tier)[:2] + plan("C14", tier)[:3]
        fams += pipeline_plan(tier)[:2 if q else 8]
        return fams
    if prop == "C13":
        two = dict(sinks=["probe", "probe"])
        b = dict(maxData=1, maxTop=4 if q else 5, maxPull=1, allowFail=False, burst=q is False)
        bb = dict(maxData=3, maxTop=8, maxPull=3, allowFail=True, sinkErr=True)
        fams = []
        for kind, par in (("map", dict(f="inc")), ("filter", dict(p="even")), ("scan", dict(r="lin", seed=5)),
                          ("take", dict(n=1)), ("skip", dict(n=1))):
            fams.append((kind + "_2s", scen.with_bounds(scen.unary(kind, **par), kind, **two, **b),
                         scen.with_bounds(scen.unary(kind, **dict(par, **({"n": 2} if "n" in par else {}))), kind,
                                          **two, **bb)))
        nb = dict(maxData=1, maxTop=4, maxPull=0 if q else 1, allowFail=False, burst=False)
        for kind in ("merge", "concat", "combine"):
            fams.append((kind + "2_2s", scen.with_bounds(scen.nary(kind, 2), kind, **two, **nb),
                         scen.with_bounds(scen.nary(kind, 2), kind, **two, **bb)))
        fams.append(("flatten_2s", scen.with_bounds(scen.flatten_g(2), "flatten", **two, **nb),
                     scen.with_bounds(scen.flatten_g(2), "flatten", **two, **bb)))
        fams.append(("fromiter_2s", [scen.with_bounds(from_iter_g(xs), "from_iter", maxTop=5 if q else 6, maxPull=3, **two)
                                     for xs in ([1, 2], None)],
                     scen.with_bounds(from_iter_g([1, 2, 3, 4]), "from_iter", maxTop=10, maxPull=6, sinkErr=True, **two)))
        # concat! with a Pull outstanding across a member boundary while the other subscription attaches / pulls
        # (members that only end, so that five top-level actions stay cheap)
        fams.append(("concat2_2s_pull", scen.with_bounds(scen.nary("concat", 2), "concat", maxData=0, maxTop=5, maxPull=1,
                                                        allowFail=False, burst=False, **two), None))
        # flatten with emissions inside the greetings (an outer that hands out an inner and completes while the
        # sink is still being attached), listenable members
        fams.append(("flatten_2s_burst", scen.with_bounds(scen.flatten_g(2, "push", "push"), "flatten", maxData=1, maxTop=4,
                                                         maxPull=0, allowFail=False, burst=True, **two), None))
        # overlapping subscriptions: one sink makes the other act from inside its own handler
        xb = dict(maxData=1, maxTop=4, maxPull=1, allowFail=False, burst=False, cross=True)
        for kind, par in (("scan", dict(r="lin", seed=5)), ("take", dict(n=1)), ("filter", dict(p="even"))):
            fams.append((kind + "_2sx", scen.with_bounds(scen.unary(kind, **par), kind, **two, **xb), None))
        for kind in ("merge", "concat", "combine"):
            fams.append((kind + "2_2sx", scen.with_bounds(scen.nary(kind, 2), kind, **two,
                                                         **dict(xb, maxPull=0 if q else 1)), None))
        fams.append(("fromiter_2sx", [scen.with_bounds(from_iter_g(xs), "from_iter", maxTop=4 if q else 5, maxPull=2,
                                                       cross=True, **two) for xs in ([1, 2], None)], None))
        g = {"nodes": [{"id": 1, "kind": "interval", "period": 2}], "root": 1}
        fams.append(("interval_2s", scen.with_bounds(g, "interval", maxTop=6 if q else 7, maxPull=0, allowFail=False, **two),
                     scen.with_bounds(g, "interval", maxTop=12, maxPull=0, allowFail=True, **two)))
        return fams
    return []


def from_iter_g(xs):
    if xs is None:
        return {"nodes": [{"id": 1, "kind": "from_iter", "unbounded": True, "limit": 12}], "root": 1}
    return {"nodes": [{"id": 1, "kind": "from_iter", "items": list(xs)}], "root": 1}


# ------------------------------------------------------------------------------------------------
# C06: pipelines  from_iter(xs) |> stage* |> tap |> for_each(f)
# ------------------------------------------------------------------------------------------------
STAGES = ([("map", dict(f=f)) for f in ("inc", "dbl")]
          + [("filter", dict(p=p)) for p in ("even", "odd", "none")]
          + [("scan", dict(r="add", seed=0)), ("scan", dict(r="lin", seed=5))]
          + [("take", dict(n=n)) for n in (1, 2)] + [("skip", dict(n=n)) for n in (1, 2)]
          + [("flatmap", dict(g=g)) for g in ("rep", "upto", "oddonly")]
          + [("concat_r", dict(ys=ys)) for ys in ([], [7, 8])] + [("concat_l", dict(ys=[9]))]
          # three members: an empty one in the middle, and the pipeline itself in the middle
          + [("concat_3", dict(ys=[], zs=[7])), ("concat_m", dict(ys=[9], zs=[7]))]
          # the same source value used twice in one pipeline: concat!(s, s)
          + [("concat_self", dict())]
          # a concat!() of no member nested as the middle member: concat!(s, concat!(), from_iter([7]))
          + [("concat_z", dict(zs=[7]))])


def build_pipeline(xs, stages):
    nodes = []
    if xs is None:
        nodes.append({"id": 1, "kind": "from_iter", "unbounded": True, "limit": 12})
    else:
        nodes.append({"id": 1, "kind": "from_iter", "items": list(xs)})
    cur = 1
    for kind, par in stages:
        if kind == "concat_self":
            nodes.append({"id": len(nodes) + 1, "kind": "concat", "ups": [cur, cur]})
        elif kind == "concat_z":
            nodes.append({"id": len(nodes) + 1, "kind": "concat", "ups": []})
            empty = len(nodes)
            nodes.append({"id": len(nodes) + 1, "kind": "from_iter", "items": list(par["zs"])})
            nodes.append({"id": len(nodes) + 1, "kind": "concat", "ups": [cur, empty, len(nodes)]})
        elif kind in ("concat_r", "concat_l", "concat_3", "concat_m"):
            nodes.append({"id": len(nodes) + 1, "kind": "from_iter", "items": list(par["ys"])})
            other = len(nodes)
            if kind in ("concat_3", "concat_m"):
                nodes.append({"id": len(nodes) + 1, "kind": "from_iter", "items": list(par["zs"])})
                third = len(nodes)
                ups = [cur, other, third] if kind == "concat_3" else [other, cur, third]
            else:
                ups = [cur, other] if kind == "concat_r" else [other, cur]
            nodes.append({"id": len(nodes) + 1, "kind": "concat", "ups": ups})
        else:
            nodes.append(dict({"id": len(nodes) + 1, "kind": kind, "ups": [cur]}, **par))
        cur = len(nodes)
    return scen.with_bounds({"nodes": nodes, "root": cur}, "pipeline", sinks=["foreach"], maxTop=1, maxPull=0)


def all_lists(alpha, maxlen):
    out = [[]]
    frontier = [[]]
    for _ in range(maxlen):
        frontier = [l + [a] for l in frontier for a in alpha]
        out += frontier
    return out


def stage_seqs(depth):
    out = [[]]
    frontier = [[]]
    for _ in range(depth):
        frontier = [s + [st] for s in frontier for st in STAGES]
        out += frontier
    return out


QUICK_STAGES = [("map", dict(f="inc")), ("filter", dict(p="even")), ("scan", dict(r="lin", seed=5)),
                ("take", dict(n=2)), ("skip", dict(n=1)), ("flatmap", dict(g="upto")),
                ("flatmap", dict(g="oddonly")), ("concat_r", dict(ys=[7, 8])), ("concat_l", dict(ys=[9])),
                ("concat_3", dict(ys=[], zs=[7])), ("concat_m", dict(ys=[9], zs=[7])), ("concat_self", dict()),
                ("concat_z", dict(zs=[7]))]


def terminates_on_unbounded(sq):
    """1,2,3,... needs a take on the main path, and no stage before it that can starve it"""
    kinds = [k for k, _ in sq]
    if "take" not in kinds:
        return False
    before = sq[:kinds.index("take")]
    return not any(k in ("concat_r", "concat_3", "concat_m", "concat_self", "concat_z") or (k == "filter" and p.get("p") == "none")
                   for k, p in before)


def pipeline_plan(tier, chunk=150):
    import random
    q = tier == "quick"
    cfgs = []
    if q:
        inputs = all_lists([1, 2], 2) + [[1, 2, 3]]
        seqs = [[]] + [[s] for s in STAGES] + [[a, b] for a in QUICK_STAGES for b in QUICK_STAGES]
    else:
        inputs = all_lists([1, 2, 3], 3)
        seqs = stage_seqs(2)
    for sq in seqs:
        for xs in inputs:
            cfgs.append(build_pipeline(xs, sq))
        if terminates_on_unbounded(sq):
            cfgs.append(build_pipeline(None, sq))
    if not q:
        rnd = random.Random(7)
        for _ in range(1500):
            sq = [rnd.choice(STAGES) for _ in range(3)]
            cfgs.append(build_pipeline(rnd.choice(inputs), sq))
    fams = []
    for i in range(0, len(cfgs), chunk):
        fams.append((f"pipes{i // chunk}", cfgs[i:i + chunk], None))
    return fams
