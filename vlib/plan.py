"""Which scenario families (graphs, peer modes, bounds) are explored for which property and tier."""
from . import scen


def B(tier, **kw):
    """bounds: quick defaults, thorough overrides given as q=(quick, thorough) tuples"""
    out = {}
    for k, v in kw.items():
        out[k] = (v[0] if tier == "quick" else v[1]) if isinstance(v, tuple) else v
    return out


def seq_families(tier):
    """all sequential operator families with puppets and probe sinks (C01-C05, C17 and friends).
    Each entry: name -> (cfg, rand_cfg or None)"""
    q = tier == "quick"
    F = {}
    un = dict(maxData=2, maxTop=3, maxPull=2, allowFail=True, sinkErr=False)
    unE = dict(maxData=1 if q else 2, maxTop=2 if q else 3, maxPull=1, allowFail=True, sinkErr=True)
    big = dict(maxData=4, maxTop=6, maxPull=4, allowFail=True, sinkErr=True)
    for kind, par in (("map", dict(f="inc")), ("filter", dict(p="even")), ("scan", dict(r="lin", seed=5)),
                      ("take", dict(n=1)), ("take", dict(n=2)), ("skip", dict(n=1))):
        nm = kind + (str(par["n"]) if "n" in par else "")
        F[nm] = (scen.with_bounds(scen.unary(kind, **par), kind, **un),
                 scen.with_bounds(scen.unary(kind, **par), kind, **big))
        F[nm + "_serr"] = (scen.with_bounds(scen.unary(kind, **par), kind, **unE), None)
    nb = dict(maxData=1, maxTop=3, maxPull=1, allowFail=True)
    nb3 = dict(maxData=1, maxTop=2 if q else 3, maxPull=1, allowFail=True)
    nbig = dict(maxData=3, maxTop=6, maxPull=3, allowFail=True, sinkErr=True)
    for kind in ("merge", "concat", "combine"):
        F[kind + "1"] = (scen.with_bounds(scen.nary(kind, 1), kind, **un), None)
        F[kind + "2"] = (scen.with_bounds(scen.nary(kind, 2), kind, **nb),
                         scen.with_bounds(scen.nary(kind, 2), kind, **nbig))
        F[kind + "2_serr"] = (scen.with_bounds(scen.nary(kind, 2), kind, maxData=1, maxTop=2, maxPull=1,
                                               allowFail=False, sinkErr=True), None)
        F[kind + "3"] = (scen.with_bounds(scen.nary(kind, 3), kind, **nb3),
                         scen.with_bounds(scen.nary(kind, 3), kind, **nbig))
    F["merge2_late"] = (scen.with_bounds(scen.nary("merge", 2, late=True), "merge", **nb),
                        scen.with_bounds(scen.nary("merge", 2, late=True), "merge", **nbig))
    F["flatten2"] = (scen.with_bounds(scen.flatten_g(2), "flatten", **nb),
                     scen.with_bounds(scen.flatten_g(3), "flatten", **nbig))
    F["share1"] = (scen.with_bounds(scen.share_g(), "share", sinks=["probe"], **un), None)
    F["share2"] = (scen.with_bounds(scen.share_g(), "share", sinks=["probe", "probe"], maxData=1, maxTop=4,
                                    maxPull=1, allowFail=True),
                   scen.with_bounds(scen.share_g(), "share", sinks=["probe", "probe", "probe"], **nbig))
    return F


GENERIC = ["C01", "C02", "C03", "C04", "C05", "C17"]


def plan(prop, tier):
    """list of (name, cfg, rand_cfg) for this property"""
    F = seq_families(tier)
    if prop in GENERIC:
        return [(n, c, r) for n, (c, r) in F.items()]
    if prop == "C07":
        return [(n, c, r) for n, (c, r) in F.items() if c["fam"] in ("map", "filter", "scan", "take", "skip")]
    own = {"C08": "merge", "C09": "concat", "C10": "combine", "C11": "flatten", "C12": "share"}
    if prop in own:
        fams = [(n, c, r) for n, (c, r) in F.items() if c["fam"] == own[prop] and not n.endswith("_serr")]
        q = tier == "quick"
        if prop == "C08":
            fams.append(("merge2_d2", scen.with_bounds(scen.nary("merge", 2), "merge", maxData=2, maxTop=3 if q else 4,
                                                      maxPull=1, allowFail=False), None))
        if prop == "C09":
            fams.append(("concat2_pull", scen.with_bounds(scen.nary("concat", 2, mode="pull"), "concat", maxData=1,
                                                         maxTop=4, maxPull=3, allowFail=True, c14=True), None))
            fams.append(("concat3_pull", scen.with_bounds(scen.nary("concat", 3, mode="pull"), "concat", maxData=1,
                                                         maxTop=3 if q else 4, maxPull=3, allowFail=False, c14=True), None))
        if prop == "C10":
            fams.append(("combine2_d2", scen.with_bounds(scen.nary("combine", 2), "combine", maxData=2,
                                                        maxTop=3 if q else 4, maxPull=1, allowFail=False), None))
        if prop == "C11":
            fams.append(("flatten2_pull", scen.with_bounds(scen.flatten_g(2, "pull", "pull"), "flatten", maxData=2,
                                                          maxTop=4, maxPull=3, allowFail=True), None))
            fams.append(("flatten2_push", scen.with_bounds(scen.flatten_g(2, "push", "push"), "flatten", maxData=2,
                                                          maxTop=4 if q else 5, maxPull=1, allowFail=False), None))
        if prop == "C12":
            fams.append(("share2_push", scen.with_bounds(scen.share_g("push"), "share", sinks=["probe", "probe"],
                                                        maxData=2, maxTop=5, maxPull=1, allowFail=True), None))
            fams.append(("share3_push", scen.with_bounds(scen.share_g("push"), "share",
                                                        sinks=["probe", "probe", "probe"], maxData=1,
                                                        maxTop=4 if q else 5, maxPull=0, allowFail=False), None))
        return fams
    return []
