"""The checking pipeline (DESIGN §2): TLC on the model -> behaviours -> replay/dfs/rand on the real code ->
TLC judges every recorded trace -> classification against known findings -> evidence."""
import concurrent.futures as cf
import hashlib, json, os, shutil, subprocess, sys, time

from . import tlc
from .scen import tla

VERIF = os.path.dirname(os.path.dirname(os.path.abspath(__file__)))
# Development aid: VERIF_REPO=<worktree> runs everything against another checkout of the crate (used to
# try seeded mutants without touching /repo); harness copy, work files, evidence and replays then live
# under /tmp/vw_<name>.  The registered commands never set it.
REPO = os.environ.get("VERIF_REPO", "/repo")
if REPO == "/repo":
    HARNESS = os.path.join(VERIF, "harness")
    WORK = os.path.join(VERIF, "work")
    OUT = VERIF
else:
    _tag = REPO.strip("/").replace("/", "_")
    OUT = os.path.join("/tmp", "vw_" + _tag)
    WORK = os.path.join(OUT, "work")
    HARNESS = os.path.join(OUT, "harness")


def _prepare_alt_harness():
    src = os.path.join(VERIF, "harness")
    os.makedirs(HARNESS, exist_ok=True)
    for root, dirs, files in os.walk(src):
        dirs[:] = [d for d in dirs if not d.startswith("target")]
        rel = os.path.relpath(root, src)
        os.makedirs(os.path.join(HARNESS, rel), exist_ok=True)
        for f in files:
            data = open(os.path.join(root, f), "rb").read()
            if f == "Cargo.toml":
                data = data.replace(b'path = "/repo"', ('path = "%s"' % REPO).encode())
            dst = os.path.join(HARNESS, rel, f)
            if not os.path.exists(dst) or open(dst, "rb").read() != data:
                open(dst, "wb").write(data)


class ToolError(Exception):
    pass


# ------------------------------------------------------------------------------------------------
# harness builds
# ------------------------------------------------------------------------------------------------
FLAVOURS = {
    "plain": dict(target="target", features=[], rustflags=""),
    "tracing": dict(target="target-tr", features=["tracing"], rustflags=""),
    "verif": dict(target="target-vf", features=[],
                  rustflags="--cfg callbag_verif --check-cfg cfg(callbag_verif)"),
}


def build_harness(flavour="plain"):
    fl = FLAVOURS[flavour]
    if REPO != "/repo":
        _prepare_alt_harness()
    env = dict(os.environ)
    env["CARGO_NET_OFFLINE"] = "true"
    env["CARGO_TARGET_DIR"] = os.path.join(HARNESS, fl["target"])
    if fl["rustflags"]:
        env["RUSTFLAGS"] = fl["rustflags"]
    cmd = ["cargo", "build", "--offline", "--quiet"]
    if fl["features"]:
        cmd += ["--features", ",".join(fl["features"])]
    t0 = time.time()
    p = subprocess.run(cmd, cwd=HARNESS, env=env, capture_output=True, text=True)
    if p.returncode != 0:
        raise ToolError("harness build failed (" + flavour + "):\n" + p.stderr[-4000:])
    return os.path.join(HARNESS, fl["target"], "debug", "cbharness"), time.time() - t0


def run_harness(binary, scen_file, out_file, env_extra=None, timeout=3600):
    env = dict(os.environ)
    if env_extra:
        env.update(env_extra)
    p = subprocess.run(["timeout", str(timeout), binary, scen_file, out_file], env=env, capture_output=True,
                       text=True)
    if p.returncode != 0:
        raise ToolError(f"harness failed rc={p.returncode} on {scen_file}:\n" + p.stderr[-3000:])


# ------------------------------------------------------------------------------------------------
# known findings
# ------------------------------------------------------------------------------------------------

def load_findings():
    path = os.path.join(VERIF, "known_findings.json")
    if not os.path.exists(path):
        return []
    return json.load(open(path))


def match_finding(w, findings):
    for f in findings:
        if f.get("status") != "open" or f["property"] != w["prop"]:
            continue
        m = f["match"]
        if all(w.get(k) in vals for k, vals in m.items()):
            return f
    return None


# ------------------------------------------------------------------------------------------------
# one scenario family: model run, code runs, comparison, judgement
# ------------------------------------------------------------------------------------------------

def obs_key(cfg_key, obs):
    return hashlib.sha1((cfg_key + json.dumps(obs, sort_keys=True)).encode()).hexdigest()


def obs_hash(obs):
    return hashlib.sha1(json.dumps(obs, sort_keys=True).encode()).hexdigest()


def compact_behaviours(out, cfg_keys):
    """the behaviours TLC printed, with the observation history replaced by two digests (oh: of obs alone, ok:
    obs_key with the scenario) -- hundreds of thousands of histories do not fit in memory as Python objects"""
    beh = []
    for b in tlc.iter_tagged(out, "BEH"):
        b["oh"] = obs_hash(b["obs"])
        b["ok"] = obs_key(cfg_keys[b["ci"] - 1], b["obs"])
        del b["obs"]
        beh.append(b)
    return beh


def mc_module(workdir, name, cfgs, prop, keep_obs=True):
    extra = (f'Beh == Finished => PrintT(<<"BEH", ToJson([ci |-> ci, script |-> script, obs |-> obs, '
             f'w |-> PropsOf("{prop}", CFG, obs)])>>)')
    tlc.write_mc(workdir, name, cfgs, invariants=["Beh"], extra_defs=extra, keep_obs=keep_obs,
                 extends=("Callbag", "CallbagProps"), print_beh=False)


def situations(obs):
    """which situations relevant to the properties' antecedents occur in a trace (vacuity evidence:
    a clause whose antecedent never occurs in any explored trace decides nothing)"""
    tags = set()
    stack = []
    sink_disposed = set()
    sink_ended = set()
    u_ended = set()
    u_stopped = set()
    for e in obs:
        k = e["k"]
        if k == "c":
            fr, to, t = e["fr"], e["to"], e["t"]
            depth = len(stack)
            if fr.startswith("K") and t in ("T", "E"):
                tags.add("sink_disposes_nested" if depth else "sink_disposes_top")
                if t == "E":
                    tags.add("sink_disposes_with_error")
                if stack and stack[-1][1] == fr and stack[-1][2] == "H":
                    tags.add("sink_disposes_in_greeting")
                sink_disposed.add(fr)
            if fr.startswith("K") and t == "P":
                tags.add("sink_pulls_nested" if depth else "sink_pulls_top")
            if fr.startswith("U") and t == "E":
                tags.add("upstream_fails_nested" if depth else "upstream_fails_top")
                u_ended.add(fr)
            if fr.startswith("U") and t == "T":
                tags.add("upstream_completes_nested" if depth else "upstream_completes_top")
                u_ended.add(fr)
            if fr.startswith("U") and t == "D" and any(x[0].startswith("U") and x[2] in ("H", "D") for x in stack):
                tags.add("emission_nested_in_upstream_delivery")
            if fr.startswith("U") and t == "H" and not (stack and stack[-1][1] == fr and stack[-1][2] == "Sub"):
                tags.add("late_greeting")
            if to.startswith("U") and t in ("T", "E"):
                if to in u_ended:
                    tags.add("stop_sent_to_ended_upstream")
                u_stopped.add(to)
            if to.startswith("K") and t in ("T", "E"):
                sink_ended.add(to)
                tags.add("sink_receives_error" if t == "E" else "sink_receives_completion")
            if to.startswith("K") and to in sink_disposed:
                tags.add("delivery_after_disposal")
            stack.append((fr, to, t))
        elif k == "r":
            if stack:
                stack.pop()
        elif k == "panic":
            tags.add("panic")
            stack = []
        elif k == "top" and e["t"] == "fire":
            tags.add("timer_fires")
        elif k == "spawn" and e["t"] != "ok":
            tags.add("spawn_fails")
    if len({e["to"] for e in obs if e["k"] == "top" and e["t"] == "attach"}) > 1:
        tags.add("two_subscriptions")
    return tags


def run_family(prop, name, cfgs, rand_cfg, binary, seed, tier, tlc_workers=3, rand_count=200,
               env_extra=None, dfs=True, twosub=False):
    """One scenario family = one TLC run over a batch of scenario cfgs (usually one).
    returns a dict with everything the report needs"""
    if isinstance(cfgs, dict):
        cfgs = [cfgs]
    wd = os.path.join(WORK, f"{prop}_{name}")
    shutil.rmtree(wd, ignore_errors=True)
    os.makedirs(wd)
    res = dict(name=name, fam=cfgs[0]["fam"], scenarios=len(cfgs))
    t0 = time.time()
    # (1)+(2) TLC: all behaviours of the model within the bounds, each judged by the predicate
    mc = "MC_" + name
    mc_module(wd, mc, cfgs, prop)
    rc, out, dt = tlc.run_tlc(wd, mc, workers=tlc_workers, timeout=3000)
    if not tlc.tlc_ok(rc, out):
        raise ToolError(f"TLC failed on model configuration {name}:\n" + tlc.error_excerpt(out, 60))
    gen, dist, depth = tlc.parse_stats(out)
    cfg_keys = [json.dumps(c, sort_keys=True) for c in cfgs]
    key_ix = {k: i for i, k in enumerate(cfg_keys)}
    beh = compact_behaviours(out, cfg_keys)
    del out
    res.update(tlc_s=dt, states=dist, transitions=gen, depth=depth, behaviours=len(beh))
    # (a)(b)(c) the real code: replay every model behaviour, enumerate by DFS, random at larger bounds
    scen_file = os.path.join(wd, "scen.ndjson")
    with open(scen_file, "w") as f:
        for i, b in enumerate(beh):
            c = cfgs[b["ci"] - 1]
            f.write(json.dumps({"id": f"{name}.m{i}", "fam": c["fam"], "cfg": c, "drive": "replay",
                                "script": b["script"], "twosub": twosub}) + "\n")
        if dfs:
            for j, c in enumerate(cfgs):
                f.write(json.dumps({"id": f"{name}.d{j}", "fam": c["fam"], "cfg": c, "drive": "dfs",
                                    "limit": max(4 * len(beh), 20000), "twosub": twosub}) + "\n")
        rcs = [] if rand_cfg is None else (rand_cfg if isinstance(rand_cfg, list) else [rand_cfg])
        for j, rc_ in enumerate(rcs):
            if rand_count > 0:
                f.write(json.dumps({"id": f"{name}.r{j}", "fam": rc_["fam"], "cfg": rc_, "drive": "rand",
                                    "seed": seed, "count": rand_count, "twosub": twosub}) + "\n")
    tr_file = os.path.join(wd, "traces.ndjson")
    th = time.time()
    run_harness(binary, scen_file, tr_file, env_extra=env_extra)
    res["harness_s"] = time.time() - th
    # comparison model <-> code
    verdict = {}           # obs_key -> witnesses (from the model run: same predicate, same obs)
    model_scripts = {}
    for b in beh:
        ck = cfg_keys[b["ci"] - 1]
        verdict[b["ok"]] = b["w"]
        model_scripts[(b["ci"] - 1, json.dumps(b["script"]))] = b
    drift = []
    replayed = dfs_n = rand_n = 0
    dfs_scripts = set()
    judged_keys = set()    # keys written to the judge file (traces the model run has not judged)
    all_keys = set()
    ntraces = 0
    n_not_model = 0
    truncated = False
    jf = os.path.join(wd, "judge.ndjson")

    def trace_key(r):
        ck = json.dumps(r["cfg"], sort_keys=True)
        if twosub:
            # C13 compares real runs with each other: every trace goes to TraceProps
            return ck, "t" + obs_key(ck, [r["obs"], r.get("proj"), r.get("solo")])
        return ck, obs_key(ck, r["obs"])

    sit = {}
    rand_recs = []
    rand_validate_max = 300 if tier == "quick" else 3000
    rand_ix = {json.dumps(c, sort_keys=True): i for i, c in enumerate(rcs)}
    # pass 1 (streaming): drift, and which traces TLC still has to judge
    with open(tr_file) as f, open(jf, "w") as jout:
        for line in f:
            r = json.loads(line)
            if r.get("truncated"):
                truncated = True
                continue
            rid = str(r["id"])
            ck, k = trace_key(r)
            ntraces += 1
            if k not in all_keys:
                for tg in situations(r["obs"]):
                    sit[tg] = sit.get(tg, 0) + 1
            all_keys.add(k)
            if rid.startswith(name + ".m"):
                replayed += 1
                b = beh[int(rid[len(name) + 2:])]
                if obs_hash(r["obs"]) != b["oh"] or r["script"] != b["script"]:
                    drift.append(dict(kind="replay_differs", id=rid, script=b["script"]))
            elif rid.startswith(name + ".d"):
                dfs_n += 1
                sk = (key_ix[ck], json.dumps(r["script"]))
                dfs_scripts.add(sk)
                mb = model_scripts.get(sk)
                if mb is None:
                    drift.append(dict(kind="code_behaviour_not_in_model", id=rid, script=r["script"]))
                elif mb["oh"] != obs_hash(r["obs"]):
                    drift.append(dict(kind="dfs_obs_differs", id=rid, script=r["script"]))
            else:
                rand_n += 1
                if not twosub and len(rand_recs) < rand_validate_max and ck in rand_ix:
                    rand_recs.append(dict(id=rid, ci=rand_ix[ck] + 1, script=r["script"], obs=r["obs"]))
            if k not in verdict:
                n_not_model += 1
                if k not in judged_keys:
                    judged_keys.add(k)
                    jr = {"id": k, "cfg": r["cfg"], "obs": r["obs"]}
                    if twosub:
                        jr["obs"] = []      # C13 only compares proj with solo
                        jr["proj"] = r["proj"]
                        jr["solo"] = r["solo"]
                    jout.write(json.dumps(jr) + "\n")
    if dfs and not truncated:
        for sk in model_scripts:
            if sk not in dfs_scripts:
                drift.append(dict(kind="model_behaviour_not_in_code", script=json.loads(sk[1])))
    # (4) traces of the real code at bounds TLC does not enumerate: are they behaviours of the model?
    res["rand_validated_against_model"] = 0
    if rand_recs:
        acc, _, vdt = tlc.validate_against_model(wd, "TM_" + name, rcs, rand_recs, workers=tlc_workers)
        res["rand_validated_against_model"] = len(rand_recs)
        res["validate_s"] = vdt
        for r in rand_recs:
            if r["id"] not in acc:
                drift.append(dict(kind="random_trace_not_in_model", id=r["id"], script=r["script"]))
    res.update(replayed=replayed, dfs=dfs_n, rand=rand_n, drift=len(drift), drift_samples=drift[:3],
               dfs_equals_model=(dfs and not truncated and not any(d["kind"] not in ("replay_differs",) for d in drift)),
               dfs_truncated=truncated)
    # (3) TLC judges every trace of the real code that is not literally a judged model behaviour
    if judged_keys:
        viol, st, jdt = tlc.judge(wd, jf, prop, workers=tlc_workers, tag=name)
        res["judge_s"] = jdt
        for k in judged_keys:
            verdict[k] = []
        for v in viol:
            verdict[v["id"]] = v["w"]
    res["judged_by_traceprops"] = len(judged_keys)
    res["judged_as_model_behaviour"] = ntraces - n_not_model
    # pass 2 (streaming): collect the traces of the real code that have witnesses
    hits = []
    sample = None
    bad_keys = {k for k in all_keys if verdict.get(k)}
    with open(tr_file) as f:
        for i, line in enumerate(f):
            if not bad_keys and sample is not None:
                break
            r = json.loads(line)
            if r.get("truncated"):
                continue
            if sample is None and i >= ntraces // 2:
                sample = dict(script=r["script"], obs=[e for e in r["obs"] if e["k"] != "r"][:40])
            if bad_keys:
                _, k = trace_key(r)
                if k in bad_keys and len(hits) < 2000:
                    hits.append(dict(id=r["id"], cfg=r["cfg"], script=r["script"], obs=r["obs"], w=verdict[k]))
    res["impl_traces"] = ntraces
    res["situations"] = sit
    res["distinct_impl_traces"] = len(all_keys)
    res["hits"] = hits
    res["model_behaviours_with_witnesses"] = sum(1 for b in beh if b["w"])
    res["sample"] = sample
    res["wall_s"] = time.time() - t0
    if not os.environ.get("VERIF_KEEP_WORK"):
        shutil.rmtree(wd, ignore_errors=True)
    return res


def run_family_c20(name, cfgs, rand_cfg, binaries, seed, tier, tlc_workers=3, rand_count=200):
    """C20: the same scenarios and decisions on three builds/configurations of the real code"""
    prop = "C20"
    if isinstance(cfgs, dict):
        cfgs = [cfgs]
    wd = os.path.join(WORK, f"{prop}_{name}")
    shutil.rmtree(wd, ignore_errors=True)
    os.makedirs(wd)
    res = dict(name=name, fam=cfgs[0]["fam"], scenarios=len(cfgs))
    t0 = time.time()
    mc = "MC_" + name
    mc_module(wd, mc, cfgs, prop)
    rc, out, dt = tlc.run_tlc(wd, mc, workers=tlc_workers, timeout=3000)
    if not tlc.tlc_ok(rc, out):
        raise ToolError(f"TLC failed on model configuration {name}:\n" + tlc.error_excerpt(out, 60))
    gen, dist, depth = tlc.parse_stats(out)
    beh = compact_behaviours(out, [json.dumps(c, sort_keys=True) for c in cfgs])
    del out
    res.update(tlc_s=dt, states=dist, transitions=gen, depth=depth, behaviours=len(beh))
    scen_file = os.path.join(wd, "scen.ndjson")
    with open(scen_file, "w") as f:
        for i, b in enumerate(beh):
            c = cfgs[b["ci"] - 1]
            f.write(json.dumps({"id": f"{name}.m{i}", "fam": c["fam"], "cfg": c, "drive": "replay",
                                "script": b["script"]}) + "\n")
        rcs = [] if rand_cfg is None else (rand_cfg if isinstance(rand_cfg, list) else [rand_cfg])
        for j, rc_ in enumerate(rcs):
            if rand_count > 0:
                f.write(json.dumps({"id": f"{name}.r{j}", "fam": rc_["fam"], "cfg": rc_, "drive": "rand",
                                    "seed": seed, "count": rand_count}) + "\n")
    th = time.time()
    files = {}
    for tag, (binary, envx) in binaries.items():
        files[tag] = os.path.join(wd, f"traces_{tag}.ndjson")
        run_harness(binary, scen_file, files[tag], env_extra=envx)
    res["harness_s"] = time.time() - th
    drift = []
    jf = os.path.join(wd, "judge.ndjson")
    n = 0
    recs = {}
    with open(files["off"]) as fa, open(files["on"]) as fb, open(files["sub"]) as fc, open(jf, "w") as jout:
        for la, lb, lc in zip(fa, fb, fc):
            a, b, c = json.loads(la), json.loads(lb), json.loads(lc)
            assert a["id"] == b["id"] == c["id"]
            rid = str(a["id"])
            n += 1
            if rid.startswith(name + ".m"):
                mb = beh[int(rid[len(name) + 2:])]
                if obs_hash(a["obs"]) != mb["oh"] or a["script"] != mb["script"]:
                    drift.append(dict(kind="replay_differs", id=rid, script=mb["script"]))
            jout.write(json.dumps({"id": rid, "cfg": a["cfg"], "obs": a["obs"], "obs_b": b["obs"],
                                   "obs_c": c["obs"]}) + "\n")
            if a["obs"] != b["obs"] or a["obs"] != c["obs"]:
                recs[rid] = a
            if n == 1:
                res["sample"] = dict(script=a["script"], obs=[e for e in a["obs"] if e["k"] != "r"][:40])
    viol, st, jdt = tlc.judge(wd, jf, prop, workers=tlc_workers, tag=name)
    res["judge_s"] = jdt
    hits = []
    for v in viol:
        a = recs.get(str(v["id"]))
        if a is not None:
            hits.append(dict(id=a["id"], cfg=a["cfg"], script=a["script"], obs=a["obs"], w=v["w"]))
    res.update(replayed=sum(1 for _ in beh), dfs=0, rand=n - len(beh), drift=len(drift), drift_samples=drift[:3],
               dfs_equals_model=False, impl_traces=3 * n, distinct_impl_traces=n, hits=hits,
               judged_by_traceprops=n, judged_as_model_behaviour=0,
               model_behaviours_with_witnesses=0)
    res["wall_s"] = time.time() - t0
    if not os.environ.get("VERIF_KEEP_WORK"):
        shutil.rmtree(wd, ignore_errors=True)
    return res


def thr_mc(wd, name, cfg, keep_obs, export):
    """MC module for a threaded scenario.  export=True: wrapper spec recording the schedule (sequence of
    thread ids, one per access step) for replay on the hooked code"""
    nthr = len(cfg["thr"])
    if export:
        extra = '''
VARIABLE sch
MCInit == Init /\\ sch = <<>>
MCNext == Next /\\ sch' = IF \\E t \\in 1..NThr : Mover(t) /\\ AccessStep(t)
                          THEN Append(sch, CHOOSE t \\in 1..NThr : Mover(t) /\\ AccessStep(t)) ELSE sch
MCSpec == MCInit /\\ [][MCNext]_<<vars, sch>>
Beh == Finished => PrintT(<<"BEH", ToJson([sch |-> sch, obs |-> obs, panicked |-> panicked])>>)
'''
        tlc.write_mc(wd, name, [cfg], invariants=["Beh"], extra_defs=extra, keep_obs=True,
                     extends=("Callbag", "CallbagProps"), print_beh=False, nthr=nthr, spec="MCSpec",
                     action_constraint="Eager")
    else:
        tlc.write_mc(wd, name, [cfg], invariants=["NoPanic", "ThrMonOK"], keep_obs=keep_obs,
                     extends=("Callbag", "CallbagProps"), print_beh=False, nthr=nthr, action_constraint="Eager")


def run_family_thr(prop, name, cfg, binary, seed, tier, tlc_workers=4):
    """threaded scenario (C18/C19): exhaustive TLC on the model with monitors; TLC-simulated schedules
    replayed on the hooked code and compared; preemption-bounded enumeration and random schedules on the
    code; every recorded trace judged by the TLA+ predicate"""
    q = tier == "quick"
    wd = os.path.join(WORK, f"{prop}_{name}")
    shutil.rmtree(wd, ignore_errors=True)
    os.makedirs(wd)
    res = dict(name=name, fam=cfg["fam"], scenarios=1)
    t0 = time.time()
    # (1) all interleavings of the model at access granularity, monitors instead of histories
    mc = "MC_" + name
    thr_mc(wd, mc, cfg, keep_obs=False, export=False)
    rc, out, dt = tlc.run_tlc(wd, mc, workers=tlc_workers, timeout=3000)
    gen, dist, depth = tlc.parse_stats(out)
    res.update(tlc_s=dt, states=dist, transitions=gen, depth=depth)
    res["model_ok"] = tlc.tlc_ok(rc, out)
    if not res["model_ok"]:
        if "is violated" not in out:
            raise ToolError(f"TLC failed on threaded model {name}:\n" + tlc.error_excerpt(out, 60))
        res["model_violation"] = tlc.error_excerpt(out, 12)
    # (2) simulated behaviours with their schedules, for replay on the code
    mcs = "MCS_" + name
    thr_mc(wd, mcs, cfg, keep_obs=True, export=True)
    nsim = 150 if q else 1500
    rc, out, dt2 = tlc.run_tlc(wd, mcs, workers=1, timeout=1200,
                               extra_args=["-simulate", f"num={nsim}", "-depth", "400", "-seed", str(seed)])
    sims = {}
    for b in tlc.parse_tagged(out, "BEH"):
        sims[json.dumps(b["sch"])] = b
    sims = list(sims.values())
    res["behaviours"] = len(sims)
    res["sim_s"] = dt2
    # (3) the real code under the scheduler hook
    scen_file = os.path.join(wd, "scen.ndjson")
    with open(scen_file, "w") as f:
        f.write(json.dumps({"id": f"{name}.s", "fam": cfg["fam"], "cfg": cfg, "drive": "threads",
                            "scheds": [b["sch"] for b in sims]}) + "\n")
        f.write(json.dumps({"id": f"{name}.x", "fam": cfg["fam"], "cfg": cfg, "drive": "threads",
                            "enumerate": {"preempt": 2 if q else 3, "limit": 4000 if q else 60000},
                            "rand": {"count": 300 if q else 5000, "seed": seed}}) + "\n")
    tr_file = os.path.join(wd, "traces.ndjson")
    th = time.time()
    run_harness(binary, scen_file, tr_file)
    res["harness_s"] = time.time() - th
    drift = []
    replayed = enum_n = rand_n = 0
    keys = {}
    jf = os.path.join(wd, "judge.ndjson")
    ck = json.dumps(cfg, sort_keys=True)
    ntraces = 0
    hooks = True
    with open(tr_file) as f, open(jf, "w") as jout:
        for line in f:
            r = json.loads(line)
            if r.get("truncated"):
                res["enum_truncated"] = True
                continue
            ntraces += 1
            hooks = hooks and r.get("hooks", False)
            rid = str(r["id"])
            if rid.startswith(name + ".s.s"):
                replayed += 1
                b = sims[int(rid.split(".s.s")[-1])]
                if r["obs"] != b["obs"] or r["sched"] != b["sch"]:
                    drift.append(dict(kind="schedule_replay_differs", id=rid, sched=b["sch"]))
            elif ".e" in rid:
                enum_n += 1
            else:
                rand_n += 1
            k = obs_key(ck, r["obs"])
            if k not in keys:
                keys[k] = r
                jout.write(json.dumps({"id": k, "cfg": r["cfg"], "obs": r["obs"]}) + "\n")
    viol, st, jdt = tlc.judge(wd, jf, prop, workers=tlc_workers, tag=name)
    res["judge_s"] = jdt
    hits = []
    for v in viol:
        r = keys[v["id"]]
        hits.append(dict(id=r["id"], cfg=r["cfg"], script=[], sched=r["sched"], obs=r["obs"], w=v["w"]))
    mid = list(keys.values())[len(keys) // 2] if keys else None
    res.update(replayed=replayed, dfs=enum_n, rand=rand_n, drift=len(drift), drift_samples=drift[:3],
               dfs_equals_model=False, impl_traces=ntraces, distinct_impl_traces=len(keys), hits=hits,
               judged_by_traceprops=len(keys), judged_as_model_behaviour=0, model_behaviours_with_witnesses=0,
               hooks_compiled=hooks,
               sample=dict(sched=mid["sched"], obs=[e for e in mid["obs"] if e["k"] != "r"][:40]) if mid else None)
    res["wall_s"] = time.time() - t0
    if not os.environ.get("VERIF_KEEP_WORK"):
        shutil.rmtree(wd, ignore_errors=True)
    return res


def run_families(prop, fams, binary, seed, tier, jobs=5, rand_count=200, env_extra=None, twosub=False):
    results = []
    with cf.ThreadPoolExecutor(max_workers=jobs) as ex:
        futs = {ex.submit(run_family, prop, n, c, r, binary, seed, tier, 3, rand_count, env_extra, True, twosub): n
                for (n, c, r) in fams}
        for fu in cf.as_completed(futs):
            results.append(fu.result())
    results.sort(key=lambda r: r["name"])
    return results


# ------------------------------------------------------------------------------------------------
# verdict, evidence
# ------------------------------------------------------------------------------------------------

def classify(prop, results, findings):
    """-> (violations [hit+witness], known {finding id -> count})"""
    violations = []
    known = {}
    for r in results:
        for h in r["hits"]:
            unw = []
            for w in h["w"]:
                f = match_finding(w, findings)
                if f is None:
                    unw.append(w)
                else:
                    known[f["id"]] = known.get(f["id"], 0) + 1
            if unw:
                violations.append(dict(family=r["name"], id=h["id"], cfg=h["cfg"], script=h["script"],
                                       sched=h.get("sched"), obs=h["obs"], witnesses=unw))
    return violations, known


def write_replay(prop, v, idx):
    d = os.path.join(OUT, "replays")
    os.makedirs(d, exist_ok=True)
    path = os.path.join(d, f"{prop}_{idx}.json")
    with open(path, "w") as f:
        scn = dict(id="replay", fam=v["cfg"]["fam"], cfg=v["cfg"], drive="replay", script=v["script"])
        if v.get("sched") is not None:
            scn = dict(id="replay", fam=v["cfg"]["fam"], cfg=v["cfg"], drive="threads", scheds=[v["sched"]])
        if prop == "C13":
            scn["twosub"] = True
        json.dump(dict(property=prop, scenario=scn, obs=v["obs"], witnesses=v["witnesses"]), f, indent=1)
    return path


def _sum_sit(results):
    out = {}
    for r in results:
        for k, v in (r.get("situations") or {}).items():
            out[k] = out.get(k, 0) + v
    return dict(sorted(out.items()))


def write_evidence(prop, tier, seed, results, violations, known, wall, extra=None, assumptions=None):
    cov = dict(
        states=sum(r.get("states", 0) for r in results),
        transitions=sum(r.get("transitions", 0) for r in results),
        traces_validated_against_impl=sum(r.get("impl_traces", 0) for r in results),
        distinct_impl_traces=sum(r.get("distinct_impl_traces", 0) for r in results),
        model_behaviours=sum(r.get("behaviours", 0) for r in results),
        model_behaviours_replayed_on_code=sum(r.get("replayed", 0) for r in results),
        code_dfs_runs=sum(r.get("dfs", 0) for r in results),
        code_random_runs=sum(r.get("rand", 0) for r in results),
        random_traces_validated_against_model=sum(r.get("rand_validated_against_model", 0) for r in results),
        traces_judged_by_traceprops=sum(r.get("judged_by_traceprops", 0) for r in results),
        traces_equal_to_a_judged_model_behaviour=sum(r.get("judged_as_model_behaviour", 0) for r in results),
        drift=sum(r.get("drift", 0) for r in results),
        exhaustive=all(r.get("dfs_equals_model", False) for r in results) if results else False,
        rule=("every complete behaviour of the TLA+ model within the family's bounds (TLC, exhaustive) is "
              "replayed on the real code; the real code's own decision tree is enumerated by DFS with the "
              "same bounds and compared with the model's behaviour set; seeded random runs at larger "
              "bounds; every recorded trace is judged by the TLA+ predicate of the property"),
        families={r["name"]: {k: r.get(k) for k in ("states", "transitions", "behaviours", "replayed", "dfs",
                                                     "rand", "drift", "dfs_equals_model", "tlc_s",
                                                     "harness_s", "wall_s",
                                                     "model_behaviours_with_witnesses")}
                  for r in results},
        samples=[r["sample"] for r in results if r.get("sample")][:3],
        known_findings_seen=known,
        distinct_traces_containing_situation=_sum_sit(results),
    )
    if extra:
        cov.update(extra)
    ev = dict(property_id=prop, tier=tier, seed=seed, level="model_checking", coverage=cov,
              assumptions=assumptions or [
                  "sequentially consistent, single-threaded execution of the closures (sequential properties)",
                  "environment components are conformant by construction (harness/src/comps.rs == environment of Callbag.tla)",
                  "TLC, the PlusCal translator and the Json community module are trusted",
              ],
              wall_s=round(wall, 2), violations=len(violations))
    os.makedirs(os.path.join(OUT, "evidence"), exist_ok=True)
    with open(os.path.join(OUT, "evidence", f"{prop}.json"), "w") as f:
        json.dump(ev, f, indent=1)
    return ev
