"""Scenario construction: one JSON cfg is the single source for the harness (reads it as is) and for the
TLA+ model (converted to the constant CFG of spec/Callbag.tla)."""
import json

NODE_DEFAULTS = {
    "kind": "", "ups": [], "pid": 0, "mode": "any", "late": False, "inner": [], "n": 0, "f": "",
    "p": "", "r": "", "seed": 0, "items": [], "unbounded": False, "limit": 12, "period": 1, "g": "",
}
CFG_DEFAULTS = {
    "fam": "", "root": 0, "sinks": ["probe"], "maxData": 2, "maxTop": 3, "maxPull": 2,
    "sinkErr": False, "allowFail": False, "c14": False, "burst": True, "reentrant": False,
    "passive": False, "thr": [], "maxReact": 1, "cross": False,
}


def norm_cfg(cfg):
    """fill in every field so that records are homogeneous on the TLA+ side"""
    out = dict(CFG_DEFAULTS)
    out.update({k: v for k, v in cfg.items() if k != "nodes"})
    nodes = []
    for i, n in enumerate(cfg["nodes"]):
        assert n["id"] == i + 1, "node ids must be 1..N in order"
        m = dict(NODE_DEFAULTS)
        m.update(n)
        nodes.append(m)
    out["nodes"] = nodes
    return out


def tla(v):
    if isinstance(v, bool):
        return "TRUE" if v else "FALSE"
    if isinstance(v, int):
        return str(v)
    if isinstance(v, str):
        return json.dumps(v)
    if isinstance(v, list):
        return "<<" + ", ".join(tla(x) for x in v) + ">>"
    if isinstance(v, dict):
        return "[" + ", ".join(f"{k} |-> {tla(x)}" for k, x in v.items()) + "]"
    raise TypeError(v)


# ------------------------------------------------------------------------------------------------
# graph helpers
# ------------------------------------------------------------------------------------------------

def puppet(i, pid, mode="any", late=False):
    return {"id": i, "kind": "puppet", "pid": pid, "mode": mode, "late": late}


def unary(kind, mode="any", **par):
    nodes = [puppet(1, 1, mode), dict({"id": 2, "kind": kind, "ups": [1]}, **par)]
    return {"nodes": nodes, "root": 2}


def nary(kind, k, mode="any", late=False):
    nodes = [puppet(i + 1, i + 1, mode, late) for i in range(k)]
    nodes.append({"id": k + 1, "kind": kind, "ups": list(range(1, k + 1))})
    return {"nodes": nodes, "root": k + 1}


def flatten_g(ninner, omode="any", imode="any"):
    nodes = [puppet(i + 1, i + 1, imode) for i in range(ninner)]
    nodes.append({"id": ninner + 1, "kind": "puppet_outer", "pid": ninner + 1, "mode": omode,
                  "inner": list(range(1, ninner + 1))})
    nodes.append({"id": ninner + 2, "kind": "flatten", "ups": [ninner + 1]})
    return {"nodes": nodes, "root": ninner + 2}


def share_g(mode="any"):
    return {"nodes": [puppet(1, 1, mode), {"id": 2, "kind": "share", "ups": [1]}], "root": 2}


def with_bounds(g, fam, **kw):
    c = dict(g)
    c["fam"] = fam
    c.update(kw)
    return norm_cfg(c)
