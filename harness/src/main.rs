//! cbharness: drives the real callbag-rs operators against the conformant environment of DESIGN §3.2
//! and records boundary traces as NDJSON.
//!
//! usage: cbharness <scenarios.ndjson> <traces.ndjson>
//! Each scenario line: {"id":..,"fam":..,"cfg":{..},"drive":"replay|dfs|rand|threads",...}

mod comps;
mod env;
mod graph;
mod nurse;
mod sched;

use comps::{Probe, Puppet, V};
use env::{Decider, Env};
use graph::{build, cfg_from, Graph};
use serde_json::{json, Value};
use std::{
    io::{BufRead, BufReader, BufWriter, Write},
    panic::{catch_unwind, AssertUnwindSafe},
    sync::Arc,
};

fn enabled(g: &Graph) -> Vec<String> {
    let env = &g.env;
    let mut acts = vec![];
    let n = g.sink_kinds.len();
    for k in 1..=n {
        let (attached, live) = env.with_sink(k, |s| (s.attached, s.live()));
        let prev_attached = k == 1 || env.with_sink(k - 1, |s| s.attached);
        if !attached && prev_attached {
            acts.push(format!("attach K{k}"));
        }
        if live {
            if let Some(p) = &g.probes[k - 1] {
                for o in Probe::<V>::options(p, true) {
                    acts.push(format!("{o} K{k}"));
                }
            }
        }
    }
    let ninst = env.lock().insts.len();
    for ix in 0..ninst {
        let name = env.with_inst(ix, |i| i.name.clone());
        for o in Puppet::<V>::top_options(env, ix) {
            acts.push(format!("{o} {name}"));
        }
    }
    if let Some(nurse) = &g.nurse {
        for t in nurse.fireable() {
            acts.push(format!("fire T{t}"));
        }
    }
    acts
}

fn perform(g: &Graph, act: &str, comp: &str) {
    let env = &g.env;
    if let Some(k) = comp.strip_prefix('K') {
        let k: usize = k.parse().unwrap();
        if act == "attach" {
            g.attach(k);
        } else {
            g.probes[k - 1].as_ref().unwrap().act(act);
        }
    } else if comp.starts_with('U') {
        let (ix, pup) = {
            let gd = env.lock();
            let ix = gd.insts.iter().position(|i| i.name == comp).expect("unknown instance");
            (ix, gd.insts[ix].pup)
        };
        g.puppets[&pup].top(ix, act);
    } else if let Some(t) = comp.strip_prefix('T') {
        g.nurse.as_ref().unwrap().fire(t.parse().unwrap());
    }
}

fn id_str(v: &Value) -> String {
    match v.as_str() {
        Some(s) => s.to_string(),
        None => v.to_string(),
    }
}

fn panic_msg(p: Box<dyn std::any::Any + Send>) -> String {
    if let Some(s) = p.downcast_ref::<&str>() {
        s.to_string()
    } else if let Some(s) = p.downcast_ref::<String>() {
        s.clone()
    } else {
        "panic".to_string()
    }
}

pub struct RunOut {
    pub rec: Value,
    pub trail: Vec<(usize, usize)>,
}

fn run_once(sc: &Value, decider: Decider, id: &Value) -> RunOut {
    let cfg = cfg_from(sc);
    let max_top = cfg.max_top;
    let env = Env::new(cfg, decider);
    let g = Arc::new(build(sc, &env));
    {
        let g2 = Arc::clone(&g);
        let ta: env::TopAction = Arc::new(move |act, comp| perform(&g2, act, comp));
        *env.top_action.lock().unwrap_or_else(|e| e.into_inner()) = Some(ta);
    }
    let mut panic_text: Option<String> = None;
    loop {
        if env.lock().ntop >= max_top {
            break;
        }
        let acts = enabled(&g);
        let mut opts: Vec<&str> = vec!["stop"];
        opts.extend(acts.iter().map(|s| s.as_str()));
        let c = env.decide("top", "", &opts);
        if c == "stop" {
            break;
        }
        env.lock().ntop += 1;
        let (act, comp) = c.split_once(' ').unwrap();
        // C13 bookkeeping: the whole step (and the decision that chose it) belongs to one subscription
        let owner = env.owner_of_name(comp);
        env.set_owner(owner);
        if let Some(l) = env.lock().script_proj.last_mut() {
            l.0 = owner;
        }
        env.event("top", comp, act, json!(0));
        let r = catch_unwind(AssertUnwindSafe(|| {
            perform(&g, act, comp);
            if let Some(n) = &g.nurse {
                n.start_new();
            }
        }));
        if let Err(p) = r {
            // the message goes into the record, not into the trace (the model has no message text)
            panic_text = Some(panic_msg(p));
            env.event("panic", "", "", json!(0));
            break;
        }
    }
    let diverged = env.diverged();
    let trail = env.dfs_trail();
    let gd = env.lock();
    let mut rec = json!({
        "id": id,
        "fam": sc["fam"],
        "cfg": sc["cfg"],
        "script": gd.script,
        "obs": gd.obs,
        "diverged": diverged,
        "depth": gd.max_depth,
        "panic_msg": panic_text.unwrap_or_default(),
    });
    let twosub = sc["twosub"].as_bool().unwrap_or(false);
    let nsinks = gd.sinks.len();
    let mut solos = vec![];
    if twosub {
        // projection of the run onto each subscription, with the names the components would have had
        // if that subscription were the only one
        let nm = |s: &str, o: usize| -> String {
            if s.starts_with('K') {
                return "K1".to_string();
            }
            let _ = o;
            gd.norm.get(s).cloned().unwrap_or_else(|| s.to_string())
        };
        let mut projs = vec![];
        for o in 1..=nsinks {
            let mut p = vec![];
            for (e, eo) in gd.obs.iter().zip(gd.obs_own.iter()) {
                if *eo == o {
                    let mut e2 = e.clone();
                    let fr = nm(e["fr"].as_str().unwrap_or(""), o);
                    let to = nm(e["to"].as_str().unwrap_or(""), o);
                    e2["fr"] = json!(fr);
                    e2["to"] = json!(to);
                    // the error object a probe sink disposes with is tagged 800 + its own number
                    if e["t"] == "E" && e["v"].as_i64().map(|v| (801..900).contains(&v)).unwrap_or(false) {
                        e2["v"] = json!(801);
                    }
                    p.push(e2);
                }
            }
            projs.push(Value::Array(p));
            let mut sp = vec![];
            for (eo, e) in gd.script_proj.iter() {
                if *eo == o {
                    sp.push((
                        e[0].as_str().unwrap_or("").to_string(),
                        nm(e[1].as_str().unwrap_or(""), o),
                        e[2].as_str().unwrap_or("").to_string(),
                    ));
                }
            }
            solos.push(sp);
        }
        rec["proj"] = Value::Array(projs);
    }
    drop(gd);
    if twosub {
        // the same subscription alone: one probe sink, the projected script
        let mut sc1 = sc.clone();
        sc1["twosub"] = json!(false);
        sc1["cfg"]["sinks"] = json!(["probe"]);
        let mut so = vec![];
        let mut sdiv = vec![];
        for sp in solos {
            let want: Vec<Value> = sp.iter().map(|(a, b, c)| json!([a, b, c])).collect();
            let r = run_once(&sc1, Decider::Replay { script: sp, pos: 0, diverged: false }, &json!("solo"));
            // did the solo run follow the whole projected script?
            let got = r.rec["script"].as_array().cloned().unwrap_or_default();
            let followed = got.len() >= want.len() && got[..want.len()] == want[..];
            sdiv.push(json!(!followed));
            so.push(r.rec["obs"].clone());
        }
        rec["solo"] = Value::Array(so);
        rec["solo_short"] = Value::Array(sdiv);
    }
    env.cleanup();
    drop(g);
    RunOut { rec, trail }
}

fn parse_script(v: &Value) -> Vec<(String, String, String)> {
    v.as_array()
        .map(|a| {
            a.iter()
                .map(|e| {
                    (
                        e[0].as_str().unwrap_or("").to_string(),
                        e[1].as_str().unwrap_or("").to_string(),
                        e[2].as_str().unwrap_or("").to_string(),
                    )
                })
                .collect()
        })
        .unwrap_or_default()
}

fn main() {
    let args: Vec<String> = std::env::args().collect();
    if args.len() < 3 {
        eprintln!("usage: cbharness <scenarios.ndjson> <traces.ndjson>");
        std::process::exit(2);
    }
    std::panic::set_hook(Box::new(|_| {}));
    #[cfg(feature = "tracing")]
    {
        if std::env::var("CB_SUBSCRIBER").map(|v| v == "1").unwrap_or(false) {
            let _ = tracing_subscriber::fmt()
                .with_max_level(tracing::Level::TRACE)
                .with_writer(std::io::sink)
                .try_init();
        }
    }
    let inp = BufReader::new(std::fs::File::open(&args[1]).expect("open scenarios"));
    let mut out = BufWriter::new(std::fs::File::create(&args[2]).expect("create traces"));
    let mut nruns: u64 = 0;
    for line in inp.lines() {
        let line = line.unwrap();
        if line.trim().is_empty() {
            continue;
        }
        let sc: Value = serde_json::from_str(&line).expect("scenario json");
        let drive = sc["drive"].as_str().unwrap_or("replay");
        match drive {
            "replay" => {
                let script = parse_script(&sc["script"]);
                let r = run_once(&sc, Decider::Replay { script, pos: 0, diverged: false }, &sc["id"]);
                writeln!(out, "{}", r.rec).unwrap();
                nruns += 1;
            },
            "dfs" => {
                let limit = sc["limit"].as_u64().unwrap_or(u64::MAX);
                let mut prefix: Vec<usize> = vec![];
                let mut n: u64 = 0;
                loop {
                    let idv = json!(format!("{}.{}", id_str(&sc["id"]), n));
                    let r = run_once(&sc, Decider::Dfs { prefix: prefix.clone(), pos: 0, trail: vec![] }, &idv);
                    writeln!(out, "{}", r.rec).unwrap();
                    n += 1;
                    nruns += 1;
                    if n >= limit {
                        eprintln!("dfs limit reached for scenario {}", sc["id"]);
                        let _ = writeln!(out, "{}", json!({"id": sc["id"], "truncated": true}));
                        break;
                    }
                    let mut t = r.trail;
                    let mut next = None;
                    while let Some((i, cnt)) = t.pop() {
                        if i + 1 < cnt {
                            let mut p: Vec<usize> = t.iter().map(|x| x.0).collect();
                            p.push(i + 1);
                            next = Some(p);
                            break;
                        }
                    }
                    match next {
                        Some(p) => prefix = p,
                        None => break,
                    }
                }
            },
            "rand" => {
                let count = sc["count"].as_u64().unwrap_or(100);
                let seed = sc["seed"].as_u64().unwrap_or(0);
                for i in 0..count {
                    let idv = json!(format!("{}.r{}", id_str(&sc["id"]), i));
                    let r = run_once(&sc, Decider::rand(seed.wrapping_mul(1_000_003).wrapping_add(i)), &idv);
                    writeln!(out, "{}", r.rec).unwrap();
                    nruns += 1;
                }
            },
            "threads" => {
                for rec in sched::run_threads(&sc) {
                    writeln!(out, "{}", rec).unwrap();
                    nruns += 1;
                }
            },
            other => {
                eprintln!("unknown drive mode {other}");
                std::process::exit(2);
            },
        }
    }
    out.flush().unwrap();
    eprintln!("cbharness: {nruns} runs");
    let _ = Arc::new(0);
}
