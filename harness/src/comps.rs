//! Harness-owned peers of the system under test: probe sinks, puppet sources, taps, adapters and
//! instrumented iterables.  Every call crossing the boundary is bracketed in the log.

use crate::env::{DynErr, Env, PMode};
use callbag::{Callbag, Message, Sink, Source};
use serde_json::{json, Value};
use std::sync::{Arc, Mutex};

pub type Src<T> = Arc<Source<T>>;
pub type Snk<T> = Arc<Sink<T>>;

#[derive(Clone, Debug, PartialEq)]
pub enum V {
    I(i64),
    T(Vec<V>),
}

impl V {
    pub fn json(&self) -> Value {
        match self {
            V::I(i) => json!(i),
            V::T(t) => Value::Array(t.iter().map(|v| v.json()).collect()),
        }
    }
    pub fn int(&self) -> i64 {
        match self {
            V::I(i) => *i,
            V::T(_) => 0,
        }
    }
}

pub type Show<T> = Arc<dyn Fn(&T) -> Value + Send + Sync>;

pub type ShowK<T> = Arc<dyn Fn(i64, &T) -> Value + Send + Sync>;

pub fn showk_v() -> ShowK<V> {
    Arc::new(|_k, v: &V| v.json())
}

pub fn show_v() -> Show<V> {
    Arc::new(|v: &V| v.json())
}

// ------------------------------------------------------------------------------------------------
// Probe sink
// ------------------------------------------------------------------------------------------------

pub struct Probe<T: 'static> {
    env: Arc<Env>,
    k: usize,
    name: String,
    show: Show<T>,
    tb: Mutex<Option<Src<T>>>,
}

impl<T: Send + Sync + 'static> Probe<T> {
    pub fn new(env: &Arc<Env>, k: usize, show: Show<T>) -> Arc<Self> {
        let p = Arc::new(Probe { env: Arc::clone(env), k, name: format!("K{k}"), show, tb: Mutex::new(None) });
        let w = Arc::downgrade(&p);
        env.on_cleanup(Box::new(move || {
            if let Some(p) = w.upgrade() {
                *p.tb.lock().unwrap_or_else(|e| e.into_inner()) = None;
            }
        }));
        p
    }

    pub fn sink(self: &Arc<Self>) -> Snk<T> {
        let me = Arc::clone(self);
        Arc::new((move |m: Message<T, never::Never>| me.on_msg(m)).into())
    }

    fn tb(&self) -> Option<Src<T>> {
        self.tb.lock().unwrap_or_else(|e| e.into_inner()).clone()
    }

    fn on_msg(&self, m: Message<T, never::Never>) {
        self.env.with_sink(self.k, |s| s.busy += 1);
        self.on_msg2(m);
        self.env.with_sink(self.k, |s| s.busy -= 1);
    }

    fn on_msg2(&self, m: Message<T, never::Never>) {
        let env = &*self.env;
        let react;
        let _g;
        match m {
            Message::Handshake(tb) => {
                _g = env.call("S", &self.name, "H", json!(0));
                *self.tb.lock().unwrap_or_else(|e| e.into_inner()) = Some(tb);
                env.with_sink(self.k, |s| {
                    s.greeted = true;
                    s.credit = 1;
                });
                react = true;
            },
            Message::Data(d) => {
                _g = env.call("S", &self.name, "D", (self.show)(&d));
                env.with_sink(self.k, |s| s.credit = 1);
                react = true;
            },
            Message::Pull => {
                _g = env.call("S", &self.name, "P", json!(0));
                react = false;
            },
            Message::Error(e) => {
                let id = env.err_id(&e);
                _g = env.call("S", &self.name, "E", json!(id));
                env.with_sink(self.k, |s| s.ended = true);
                react = false;
            },
            Message::Terminate => {
                _g = env.call("S", &self.name, "T", json!(0));
                env.with_sink(self.k, |s| s.ended = true);
                react = false;
            },
        }
        // threaded scenarios: the handler is a scheduling point, so that deliveries can overlap
        crate::sched::hook("sink");
        // the sink reacts from inside its handler: up to cfg.maxReact actions (at most one of them a
        // Pull), ending with "none" or a disposal
        let cfg = env.cfg();
        let mut acts = 0;
        let mut pulled = false;
        while react
            && acts < cfg.max_react
            && !cfg.passive
            && env.with_sink(self.k, |s| s.live())
            && self.tb().is_some()
        {
            let opts: Vec<String> = self.options(false).into_iter().filter(|o| !(pulled && o == "pull")).collect();
            let optr: Vec<&str> = opts.iter().map(|s| s.as_str()).collect();
            let c = env.decide("sink", &self.name, &optr);
            if c == "none" {
                break;
            }
            acts += 1;
            if c == "pull" {
                pulled = true;
            }
            self.act(&c);
        }
        // from inside its Terminate/Error handler (the "repeat on complete" idiom) a sink may make ANOTHER
        // sink act (cfg.cross) or an upstream emit / end / greet (cfg.reentrant); it does not use its own
        // talkback any more
        if !react && (cfg.cross || cfg.reentrant) && !cfg.passive && env.with_sink(self.k, |s| s.ended) {
            let xs: Vec<String> = self
                .options(false)
                .into_iter()
                .filter(|o| o.starts_with("x ") || o.starts_with("kick"))
                .collect();
            if !xs.is_empty() {
                let mut opts: Vec<String> = vec!["none".into()];
                opts.extend(xs);
                let optr: Vec<&str> = opts.iter().map(|s| s.as_str()).collect();
                let c = env.decide("sink", &self.name, &optr);
                if c != "none" {
                    self.act(&c);
                }
            }
        }
    }

    /// options of this sink, nested (inside a handler: with "none") or at top level
    pub fn options(&self, top: bool) -> Vec<String> {
        let cfg = self.env.cfg();
        let mut o: Vec<String> = vec![];
        if !top {
            o.push("none".into());
        }
        let (pulls, credit) = self.env.with_sink(self.k, |s| (s.pulls, s.credit));
        if pulls < cfg.max_pull && (!cfg.c14 || credit > 0) {
            o.push("pull".into());
        }
        o.push("term".into());
        if cfg.sink_err {
            o.push("err".into());
        }
        if !top && cfg.cross {
            // overlapping subscriptions: from inside its handler this sink makes ANOTHER sink of the same
            // output act (attach, pull, dispose) -- the nested form of interleaving two subscriptions
            let g = self.env.lock();
            if g.ntop < cfg.max_top {
                for j in 1..=g.sinks.len() {
                    if j == self.k {
                        continue;
                    }
                    let s = &g.sinks[j - 1];
                    if !s.attached && (j == 1 || g.sinks[j - 2].attached) {
                        o.push(format!("x attach K{j}"));
                    }
                    // only sinks with no delivery in progress: for them it is a top-level action
                    if s.live() && s.busy == 0 {
                        if s.pulls < cfg.max_pull {
                            o.push(format!("x pull K{j}"));
                        }
                        o.push(format!("x term K{j}"));
                    }
                }
            }
        }
        if !top && cfg.reentrant {
            // re-entrant emission: the sink makes a live listenable upstream emit from inside its handler
            let g = self.env.lock();
            for i in g.insts.iter() {
                if i.live() && g.pups[i.pup - 1].mode != PMode::Pull && i.sent < cfg.max_data {
                    o.push(format!("kick {}", i.name));
                }
            }
            // ... or makes a member that has not greeted yet greet now
            for i in g.insts.iter() {
                if i.pending {
                    o.push(format!("kickgreet {}", i.name));
                }
            }
            // ... or complete / fail at once
            for i in g.insts.iter() {
                if i.live() && g.pups[i.pup - 1].mode != PMode::Pull {
                    o.push(format!("kickend {}", i.name));
                }
            }
            if cfg.allow_fail {
                for i in g.insts.iter() {
                    if i.live() && g.pups[i.pup - 1].mode != PMode::Pull {
                        o.push(format!("kickfail {}", i.name));
                    }
                }
            }
        }
        o
    }

    pub fn act(&self, c: &str) {
        let env = &*self.env;
        let tb = match self.tb() {
            Some(tb) => tb,
            None => return,
        };
        match c {
            "pull" => {
                env.with_sink(self.k, |s| {
                    s.pulls += 1;
                    s.credit = 0;
                });
                let _g = env.call(&self.name, "S", "P", json!(0));
                tb(Message::Pull);
            },
            "term" => {
                env.with_sink(self.k, |s| s.disposed = true);
                let _g = env.call(&self.name, "S", "T", json!(0));
                tb(Message::Terminate);
            },
            "err" => {
                env.with_sink(self.k, |s| s.disposed = true);
                let id = 800 + self.k as i64;
                let e = env.new_err(id);
                let _g = env.call(&self.name, "S", "E", json!(id));
                tb(Message::Error(e));
            },
            other => {
                if let Some(rest) = other.strip_prefix("x ") {
                    // a top-level action of another subscription, performed from inside this handler
                    let (act2, comp2) = rest.split_once(' ').unwrap_or((rest, ""));
                    let j: usize = comp2.trim_start_matches('K').parse().unwrap_or(0);
                    let prev = {
                        let mut g = env.lock();
                        // this subscription itself does nothing here; the other one acts at top level
                        if let Some(l) = g.script_proj.last_mut() {
                            l.1 = json!(["sink", self.name, "none"]);
                        }
                        g.script_proj.push((j, json!(["top", comp2, act2])));
                        g.ntop += 1;
                        let p = g.cur_owner;
                        g.cur_owner = j;
                        p
                    };
                    env.event("top", comp2, act2, json!(0));
                    let ta = env.top_action.lock().unwrap_or_else(|e| e.into_inner()).clone();
                    if let Some(ta) = ta {
                        ta(act2, comp2);
                    }
                    env.set_owner(prev);
                    return;
                }
                let (what, name) = match other.split_once(' ') {
                    Some((w, n)) if w == "kick" || w == "kickend" || w == "kickfail" || w == "kickgreet" => (w, n),
                    _ => ("", ""),
                };
                if !what.is_empty() {
                    let (ix, pup) = {
                        let g = env.lock();
                        match g.insts.iter().position(|i| i.name == name) {
                            Some(ix) => (ix, g.insts[ix].pup),
                            None => return,
                        }
                    };
                    let k = env.kicker.lock().unwrap_or_else(|e| e.into_inner()).clone();
                    if let Some(k) = k {
                        k(ix, pup, match what {
                            "kickend" => "end",
                            "kickfail" => "fail",
                            "kickgreet" => "greet",
                            _ => "emit",
                        });
                    }
                }
            },
        }
    }
}

// ------------------------------------------------------------------------------------------------
// Puppet source
// ------------------------------------------------------------------------------------------------

pub struct Puppet<T: 'static> {
    env: Arc<Env>,
    pub id: usize,
    gen: Arc<dyn Fn(i64) -> T + Send + Sync>,
    show: ShowK<T>,
    err: DynErr,
    /// per instance: (index into env.insts, sink)
    insts: Mutex<Vec<(usize, Snk<T>)>>,
}

pub trait PuppetDyn: Send + Sync {
    fn id(&self) -> usize;
    /// perform a top-level action on the instance with env index `ix`
    fn top(&self, ix: usize, action: &str);
}

impl<T: Send + Sync + 'static> Puppet<T> {
    pub fn new(
        env: &Arc<Env>,
        mode: PMode,
        late: bool,
        gen: Arc<dyn Fn(i64) -> T + Send + Sync>,
        show: ShowK<T>,
    ) -> Arc<Self> {
        let id = env.add_puppet(mode, late);
        let err = env.new_err(900 + id as i64);
        let p = Arc::new(Puppet { env: Arc::clone(env), id, gen, show, err, insts: Mutex::new(vec![]) });
        let w = Arc::downgrade(&p);
        env.on_cleanup(Box::new(move || {
            if let Some(p) = w.upgrade() {
                p.insts.lock().unwrap_or_else(|e| e.into_inner()).clear();
            }
        }));
        p
    }

    pub fn source(self: &Arc<Self>) -> Src<T> {
        let me = Arc::clone(self);
        Arc::new(
            (move |m: Message<never::Never, T>| {
                if let Message::Handshake(sink) = m {
                    Puppet::subscribe(&me, sink);
                }
            })
            .into(),
        )
    }

    fn sink_of(&self, ix: usize) -> Snk<T> {
        let g = self.insts.lock().unwrap_or_else(|e| e.into_inner());
        Arc::clone(&g.iter().find(|(i, _)| *i == ix).expect("unknown puppet instance").1)
    }

    fn name(&self, ix: usize) -> String {
        self.env.with_inst(ix, |i| i.name.clone())
    }

    fn subscribe(me: &Arc<Self>, sink: Snk<T>) {
        let env = &*me.env;
        let (ix, name) = env.new_inst(me.id);
        me.insts.lock().unwrap_or_else(|e| e.into_inner()).push((ix, sink));
        let _g = env.call("S", &name, "Sub", json!(me.id as i64));
        let (_, late) = env.pup_mode(me.id);
        let opts: Vec<&str> = if late { vec!["now", "later"] } else { vec!["now"] };
        let c = env.decide("sub", &name, &opts);
        if c == "now" {
            Puppet::greet(me, ix);
            me.burst(ix);
        } else {
            env.with_inst(ix, |i| i.pending = true);
        }
    }

    fn greet(me: &Arc<Self>, ix: usize) {
        let env = &*me.env;
        let name = me.name(ix);
        env.with_inst(ix, |i| {
            i.greeted = true;
            i.pending = false;
        });
        let tb: Src<T> = {
            let me = Arc::clone(me);
            Arc::new((move |m: Message<never::Never, T>| me.on_tb(ix, m)).into())
        };
        let sink = me.sink_of(ix);
        let _g = env.call(&name, "S", "H", json!(0));
        sink(Message::Handshake(tb));
    }

    fn burst(&self, ix: usize) {
        let env = &*self.env;
        let cfg = env.cfg();
        let (mode, _) = env.pup_mode(self.id);
        if mode == PMode::Pull || !cfg.burst {
            return;
        }
        let name = self.name(ix);
        loop {
            let (live, sent) = env.with_inst(ix, |i| (i.live(), i.sent));
            if !live {
                break;
            }
            let mut opts = vec!["stop"];
            if sent < cfg.max_data {
                opts.push("data");
            }
            opts.push("end");
            if cfg.allow_fail {
                opts.push("err");
            }
            let c = env.decide("burst", &name, &opts);
            match c.as_str() {
                "data" => self.emit(ix),
                "end" => {
                    self.end(ix);
                    break;
                },
                "err" => {
                    self.fail(ix);
                    break;
                },
                _ => break,
            }
        }
    }

    fn emit(&self, ix: usize) {
        let env = &*self.env;
        let name = self.name(ix);
        let k = env.with_inst(ix, |i| {
            i.sent += 1;
            i.sent
        });
        let v = (self.gen)(k as i64);
        let sink = self.sink_of(ix);
        let _g = env.call(&name, "S", "D", (self.show)(k as i64, &v));
        sink(Message::Data(v));
    }

    fn end(&self, ix: usize) {
        let env = &*self.env;
        let name = self.name(ix);
        env.with_inst(ix, |i| i.ended = true);
        let sink = self.sink_of(ix);
        let _g = env.call(&name, "S", "T", json!(0));
        sink(Message::Terminate);
    }

    fn fail(&self, ix: usize) {
        let env = &*self.env;
        let name = self.name(ix);
        env.with_inst(ix, |i| i.ended = true);
        let sink = self.sink_of(ix);
        let _g = env.call(&name, "S", "E", json!(900 + self.id as i64));
        sink(Message::Error(Arc::clone(&self.err)));
    }

    fn answer_opts(&self, ix: usize) -> Vec<&'static str> {
        let cfg = self.env.cfg();
        let sent = self.env.with_inst(ix, |i| i.sent);
        let mut o = vec![];
        if sent < cfg.max_data {
            o.push("data");
        }
        o.push("end");
        if cfg.allow_fail {
            o.push("err");
        }
        o
    }

    fn on_tb(&self, ix: usize, m: Message<never::Never, T>) {
        let env = &*self.env;
        let name = self.name(ix);
        match m {
            Message::Pull => {
                let _g = env.call("S", &name, "P", json!(0));
                if env.with_inst(ix, |i| i.live()) {
                    let (mode, _) = env.pup_mode(self.id);
                    let mut opts: Vec<&str> = vec![];
                    if mode != PMode::Pull {
                        opts.push("ignore");
                    }
                    if mode != PMode::Push {
                        opts.extend(self.answer_opts(ix));
                        opts.push("defer");
                    }
                    // an eagerly completing source: answers with its last datum and completes at once
                    if mode == PMode::Any && env.with_inst(ix, |i| i.sent) < env.cfg().max_data {
                        opts.push("dataend");
                    }
                    let c = env.decide("onpull", &name, &opts);
                    match c.as_str() {
                        "data" => self.emit(ix),
                        "dataend" => {
                            self.emit(ix);
                            if env.with_inst(ix, |i| i.live()) {
                                self.end(ix);
                            }
                        },
                        "end" => self.end(ix),
                        "err" => self.fail(ix),
                        "defer" => {
                            env.with_inst(ix, |i| i.deferred += 1);
                            env.event("note", &name, "defer", json!(0));
                        },
                        _ => {},
                    }
                }
            },
            Message::Terminate => {
                let _g = env.call("S", &name, "T", json!(0));
                env.with_inst(ix, |i| i.stopped = true);
                self.on_stop(&name);
            },
            Message::Error(e) => {
                let id = env.err_id(&e);
                let _g = env.call("S", &name, "E", json!(id));
                env.with_inst(ix, |i| i.stopped = true);
                self.on_stop(&name);
            },
            Message::Handshake(_) => {
                let _g = env.call("S", &name, "H", json!(0));
            },
            Message::Data(_) => {},
        }
    }

    /// re-entrant scenarios: being stopped, this source may make a sibling that has not greeted yet greet
    /// at once (members that are linked to each other)
    fn on_stop(&self, name: &str) {
        let env = &*self.env;
        if !env.cfg().reentrant {
            return;
        }
        let pend: Vec<(usize, usize, String)> = {
            let g = env.lock();
            g.insts.iter().enumerate().filter(|(_, i)| i.pending).map(|(ix, i)| (ix, i.pup, i.name.clone())).collect()
        };
        if pend.is_empty() {
            return;
        }
        let mut opts: Vec<String> = vec!["none".into()];
        opts.extend(pend.iter().map(|(_, _, n)| format!("kickgreet {n}")));
        let optr: Vec<&str> = opts.iter().map(|s| s.as_str()).collect();
        let c = env.decide("onstop", name, &optr);
        if let Some(n) = c.strip_prefix("kickgreet ") {
            if let Some((ix, pup, _)) = pend.iter().find(|(_, _, nm)| nm == n) {
                let k = env.kicker.lock().unwrap_or_else(|e| e.into_inner()).clone();
                if let Some(k) = k {
                    k(*ix, *pup, "greet");
                }
            }
        }
    }

    /// top-level options of instance ix
    pub fn top_options(env: &Env, ix: usize) -> Vec<&'static str> {
        let cfg = env.cfg();
        let (pup, pending, live, sent, deferred) =
            env.with_inst(ix, |i| (i.pup, i.pending, i.live(), i.sent, i.deferred));
        let (mode, _) = env.pup_mode(pup);
        let mut o = vec![];
        if pending {
            o.push("greet");
        }
        if live && mode != PMode::Pull {
            if sent < cfg.max_data {
                o.push("emit");
            }
            o.push("end");
            if cfg.allow_fail {
                o.push("fail");
            }
        }
        if live && deferred > 0 {
            o.push("reply");
        }
        o
    }
}

pub struct PuppetHandle<T: 'static>(pub Arc<Puppet<T>>);

impl<T: Send + Sync + 'static> PuppetDyn for PuppetHandle<T> {
    fn id(&self) -> usize {
        self.0.id
    }
    fn top(&self, ix: usize, action: &str) {
        let p = &self.0;
        match action {
            "greet" => {
                Puppet::greet(p, ix);
                p.burst(ix);
            },
            "emit" => p.emit(ix),
            "end" => p.end(ix),
            "fail" => p.fail(ix),
            "reply" => {
                p.env.with_inst(ix, |i| i.deferred -= 1);
                let name = p.name(ix);
                let opts = p.answer_opts(ix);
                let c = p.env.decide("reply", &name, &opts);
                match c.as_str() {
                    "data" => p.emit(ix),
                    "end" => p.end(ix),
                    "err" => p.fail(ix),
                    _ => {},
                }
            },
            _ => {},
        }
    }
}

// ------------------------------------------------------------------------------------------------
// Adapter: stateless pass-through with a data conversion (harness code, used only to bring
// combine!'s tuples and interval's usize into the harness value type)
// ------------------------------------------------------------------------------------------------

pub fn adapt<A: Send + Sync + 'static, B: Send + Sync + 'static>(
    src: Src<A>,
    f: Arc<dyn Fn(A) -> B + Send + Sync>,
) -> Src<B> {
    Arc::new(
        (move |m: Message<never::Never, B>| {
            if let Message::Handshake(sink) = m {
                let f = Arc::clone(&f);
                src(Message::Handshake(Arc::new(
                    (move |m: Message<A, never::Never>| match m {
                        Message::Handshake(tb) => {
                            let tb2: Src<B> = Arc::new(
                                (move |m: Message<never::Never, B>| match m {
                                    Message::Pull => tb(Message::Pull),
                                    Message::Terminate => tb(Message::Terminate),
                                    Message::Error(e) => tb(Message::Error(e)),
                                    _ => {},
                                })
                                .into(),
                            );
                            sink(Message::Handshake(tb2));
                        },
                        Message::Data(d) => sink(Message::Data(f(d))),
                        Message::Pull => sink(Message::Pull),
                        Message::Terminate => sink(Message::Terminate),
                        Message::Error(e) => sink(Message::Error(e)),
                    })
                    .into(),
                )));
            }
        })
        .into(),
    )
}

// ------------------------------------------------------------------------------------------------
// Tap: transparent relay that logs like a probe sink named K<k> (used in front of for_each)
// ------------------------------------------------------------------------------------------------

pub fn tap(env: &Arc<Env>, k: usize, src: Src<V>) -> Src<V> {
    let env = Arc::clone(env);
    let name = format!("K{k}");
    Arc::new(
        (move |m: Message<never::Never, V>| {
            if let Message::Handshake(sink) = m {
                let env = Arc::clone(&env);
                let name = name.clone();
                src(Message::Handshake(Arc::new(
                    (move |m: Message<V, never::Never>| match m {
                        Message::Handshake(tb) => {
                            let env2 = Arc::clone(&env);
                            let name2 = name.clone();
                            let tb2: Src<V> = Arc::new(
                                (move |m: Message<never::Never, V>| match m {
                                    Message::Pull => {
                                        let _g = env2.call(&name2, "S", "P", json!(0));
                                        tb(Message::Pull)
                                    },
                                    Message::Terminate => {
                                        let _g = env2.call(&name2, "S", "T", json!(0));
                                        tb(Message::Terminate)
                                    },
                                    Message::Error(e) => {
                                        let id = env2.err_id(&e);
                                        let _g = env2.call(&name2, "S", "E", json!(id));
                                        tb(Message::Error(e))
                                    },
                                    _ => {},
                                })
                                .into(),
                            );
                            let _g = env.call("S", &name, "H", json!(0));
                            sink(Message::Handshake(tb2));
                        },
                        Message::Data(d) => {
                            let _g = env.call("S", &name, "D", d.json());
                            sink(Message::Data(d))
                        },
                        Message::Pull => {
                            let _g = env.call("S", &name, "P", json!(0));
                            sink(Message::Pull)
                        },
                        Message::Terminate => {
                            let _g = env.call("S", &name, "T", json!(0));
                            sink(Message::Terminate)
                        },
                        Message::Error(e) => {
                            let id = env.err_id(&e);
                            let _g = env.call("S", &name, "E", json!(id));
                            sink(Message::Error(e))
                        },
                    })
                    .into(),
                )));
            }
        })
        .into(),
    )
}

// ------------------------------------------------------------------------------------------------
// Instrumented iterable for from_iter
// ------------------------------------------------------------------------------------------------

pub struct ProbeIterable {
    pub env: Arc<Env>,
    pub id: usize,
    /// None = 1,2,3,... without end
    pub items: Option<Vec<i64>>,
    pub limit: usize,
    pub clones: Arc<Mutex<usize>>,
    pub clone_no: usize,
}

impl std::fmt::Debug for ProbeIterable {
    fn fmt(&self, f: &mut std::fmt::Formatter<'_>) -> std::fmt::Result {
        write!(f, "ProbeIterable(I{})", self.id)
    }
}

impl Clone for ProbeIterable {
    fn clone(&self) -> Self {
        let n = {
            let mut c = self.clones.lock().unwrap_or_else(|e| e.into_inner());
            *c += 1;
            *c
        };
        self.env.register_name(&format!("I{}#", self.id), &format!("I{}#{}", self.id, n));
        self.env.event("clone", &format!("I{}#{}", self.id, n), "", json!(0));
        ProbeIterable {
            env: Arc::clone(&self.env),
            id: self.id,
            items: self.items.clone(),
            limit: self.limit,
            clones: Arc::clone(&self.clones),
            clone_no: n,
        }
    }
}

pub struct ProbeIter {
    env: Arc<Env>,
    name: String,
    items: Option<Vec<i64>>,
    limit: usize,
    pos: usize,
}

impl std::fmt::Debug for ProbeIter {
    fn fmt(&self, f: &mut std::fmt::Formatter<'_>) -> std::fmt::Result {
        write!(f, "ProbeIter({})", self.name)
    }
}

impl IntoIterator for ProbeIterable {
    type Item = V;
    type IntoIter = ProbeIter;
    fn into_iter(self) -> ProbeIter {
        ProbeIter {
            name: format!("I{}#{}", self.id, self.clone_no),
            env: self.env,
            items: self.items,
            limit: self.limit,
            pos: 0,
        }
    }
}

impl Iterator for ProbeIter {
    type Item = V;
    fn next(&mut self) -> Option<V> {
        let res = match &self.items {
            Some(v) => v.get(self.pos).copied(),
            None => {
                if self.pos >= self.limit {
                    self.env.event("runaway", &self.name, "", json!(self.pos as i64));
                    None
                } else {
                    Some(self.pos as i64 + 1)
                }
            },
        };
        self.pos += 1;
        self.env.event("next", &self.name, "", json!(res.unwrap_or(-1)));
        res.map(V::I)
    }

    /// exact for a finite list (as for `Vec`, arrays, ranges: the common iterables), open-ended for 1,2,3,..;
    /// not an observable event: the crate is free to ask
    fn size_hint(&self) -> (usize, Option<usize>) {
        match &self.items {
            Some(v) => {
                let left = v.len().saturating_sub(self.pos);
                (left, Some(left))
            },
            None => (usize::MAX, None),
        }
    }
}

#[allow(dead_code)]
pub fn unused<T>(_: Callbag<T, T>) {}
