//! Environment bookkeeping shared by all harness components: the observable log (`obs`), the script of
//! choices, the decision provider (replay / dfs / rand), and the conformance state of every probe sink
//! and puppet instance.  Mirrors the environment process of spec/Callbag.tla (DESIGN §3.2).

use rand::{rngs::StdRng, Rng, SeedableRng};
use serde_json::{json, Value};
use std::{
    error::Error,
    fmt,
    sync::{Arc, Mutex, MutexGuard},
};

#[derive(Clone, Debug, Default)]
pub struct Cfg {
    pub max_data: usize,
    pub max_top: usize,
    pub max_pull: usize,
    pub sink_err: bool,
    pub allow_fail: bool,
    pub c14: bool,
    pub burst: bool,
    pub nsinks: usize,
}

#[derive(Clone, Copy, Debug, PartialEq, Eq)]
pub enum PMode {
    Push,
    Pull,
    Any,
}

#[derive(Debug)]
pub struct PupDef {
    pub mode: PMode,
    pub late: bool,
    pub ninst: usize,
}

#[derive(Debug, Default)]
pub struct InstSt {
    pub pup: usize,
    pub inst: usize,
    pub name: String,
    pub greeted: bool,
    pub pending: bool,
    pub ended: bool,
    pub stopped: bool,
    pub sent: usize,
    pub deferred: usize,
}

impl InstSt {
    pub fn live(&self) -> bool {
        self.greeted && !self.ended && !self.stopped
    }
}

#[derive(Debug, Default)]
pub struct SinkSt {
    pub attached: bool,
    pub greeted: bool,
    pub ended: bool,
    pub disposed: bool,
    pub pulls: usize,
    pub credit: usize,
}

impl SinkSt {
    pub fn live(&self) -> bool {
        self.attached && self.greeted && !self.ended && !self.disposed
    }
}

#[derive(Debug, Default)]
pub struct TaskSt {
    pub armed: bool,
    pub deadline: u64,
    pub done: bool,
}

pub enum Decider {
    /// follow a script of [kind, comp, choice]; fall back to the first enabled option on divergence
    Replay { script: Vec<(String, String, String)>, pos: usize, diverged: bool },
    /// stateless DFS by re-execution: follow `prefix` (option indices), then take option 0
    Dfs { prefix: Vec<usize>, pos: usize, trail: Vec<(usize, usize)> },
    Rand { rng: StdRng, stop_w: u32 },
}

impl Decider {
    pub fn rand(seed: u64) -> Decider {
        Decider::Rand { rng: StdRng::seed_from_u64(seed), stop_w: 1 }
    }
}

pub struct Inner {
    pub cfg: Cfg,
    pub obs: Vec<Value>,
    pub script: Vec<Value>,
    pub decider: Decider,
    pub sinks: Vec<SinkSt>,
    pub pups: Vec<PupDef>,
    pub insts: Vec<InstSt>,
    pub tasks: Vec<TaskSt>,
    pub now: u64,
    pub errs: Vec<(usize, i64)>,
    pub panicked: bool,
    pub depth: usize,
    pub max_depth: usize,
}

pub struct Env {
    inner: Mutex<Inner>,
}

/// Error object with an identity the harness can recognise again (`Arc::ptr_eq` via data pointer).
#[derive(Debug)]
pub struct TagErr(pub i64);
impl fmt::Display for TagErr {
    fn fmt(&self, f: &mut fmt::Formatter<'_>) -> fmt::Result {
        write!(f, "TagErr({})", self.0)
    }
}
impl Error for TagErr {}

pub type DynErr = Arc<dyn Error + Send + Sync + 'static>;

fn err_addr(e: &DynErr) -> usize {
    Arc::as_ptr(e) as *const () as usize
}

/// Emits the matching return event when dropped (also during unwinding).
pub struct CallGuard<'a> {
    env: &'a Env,
    th: usize,
}

impl Drop for CallGuard<'_> {
    fn drop(&mut self) {
        let mut g = self.env.lock();
        g.depth = g.depth.saturating_sub(1);
        let th = self.th;
        g.obs.push(json!({"k":"r","th":th,"fr":"","to":"","t":"","v":0}));
    }
}

thread_local! {
    pub static THREAD_ID: std::cell::Cell<usize> = const { std::cell::Cell::new(0) };
}

pub fn cur_thread() -> usize {
    THREAD_ID.with(|t| t.get())
}

impl Env {
    pub fn new(cfg: Cfg, decider: Decider) -> Arc<Env> {
        let mut sinks = Vec::new();
        for _ in 0..cfg.nsinks {
            sinks.push(SinkSt::default());
        }
        Arc::new(Env {
            inner: Mutex::new(Inner {
                cfg,
                obs: vec![],
                script: vec![],
                decider,
                sinks,
                pups: vec![],
                insts: vec![],
                tasks: vec![],
                now: 0,
                errs: vec![],
                panicked: false,
                depth: 0,
                max_depth: 0,
            }),
        })
    }

    pub fn lock(&self) -> MutexGuard<'_, Inner> {
        self.inner.lock().unwrap_or_else(|e| e.into_inner())
    }

    pub fn cfg(&self) -> Cfg {
        self.lock().cfg.clone()
    }

    // ---- logging -------------------------------------------------------------------------------

    pub fn call(&self, fr: &str, to: &str, t: &str, v: Value) -> CallGuard<'_> {
        let th = cur_thread();
        let mut g = self.lock();
        g.depth += 1;
        if g.depth > g.max_depth {
            g.max_depth = g.depth;
        }
        g.obs.push(json!({"k":"c","th":th,"fr":fr,"to":to,"t":t,"v":v}));
        CallGuard { env: self, th }
    }

    pub fn event(&self, k: &str, to: &str, t: &str, v: Value) {
        let th = cur_thread();
        self.lock().obs.push(json!({"k":k,"th":th,"fr":"","to":to,"t":t,"v":v}));
    }

    pub fn new_err(&self, id: i64) -> DynErr {
        let e: DynErr = Arc::new(TagErr(id));
        self.lock().errs.push((err_addr(&e), id));
        e
    }

    /// identity of an error object seen at the boundary: registered id, 700/701 for interval's
    /// NurseErr, -1 for an object the harness has never handed out
    pub fn err_id(&self, e: &DynErr) -> i64 {
        let a = err_addr(e);
        for (p, id) in self.lock().errs.iter() {
            if *p == a {
                return *id;
            }
        }
        if let Some(ne) = e.downcast_ref::<async_nursery::NurseErr>() {
            return match ne {
                async_nursery::NurseErr::Spawn => 700,
                async_nursery::NurseErr::Closed => 701,
            };
        }
        -1
    }

    // ---- decisions -----------------------------------------------------------------------------

    pub fn decide(&self, kind: &str, comp: &str, opts: &[&str]) -> String {
        assert!(!opts.is_empty());
        let mut g = self.lock();
        let idx = match &mut g.decider {
            Decider::Replay { script, pos, diverged } => {
                let mut idx = 0;
                if !*diverged {
                    if let Some((k, c, ch)) = script.get(*pos) {
                        let want = if kind == "top" && ch != "stop" { format!("{ch} {c}") } else { ch.clone() };
                        if k == kind && (kind == "top" || c == comp) {
                            if let Some(i) = opts.iter().position(|o| *o == want) {
                                idx = i;
                                *pos += 1;
                            } else {
                                *diverged = true;
                            }
                        } else {
                            *diverged = true;
                        }
                    } else {
                        *diverged = true;
                    }
                }
                idx
            },
            Decider::Dfs { prefix, pos, trail } => {
                let idx = if *pos < prefix.len() { prefix[*pos].min(opts.len() - 1) } else { 0 };
                *pos += 1;
                trail.push((idx, opts.len()));
                idx
            },
            Decider::Rand { rng, stop_w } => {
                if kind == "top" && opts.len() > 1 {
                    // "stop" is option 0: give it weight stop_w against 4 for each action
                    let total = *stop_w + 4 * (opts.len() as u32 - 1);
                    let r = rng.gen_range(0..total);
                    if r < *stop_w {
                        0
                    } else {
                        1 + ((r - *stop_w) / 4) as usize
                    }
                } else {
                    rng.gen_range(0..opts.len())
                }
            },
        };
        let ch = opts[idx].to_string();
        if kind == "top" {
            match ch.split_once(' ') {
                Some((act, c)) => g.script.push(json!(["top", c, act])),
                None => g.script.push(json!(["top", "", ch])),
            }
        } else {
            g.script.push(json!([kind, comp, ch]));
        }
        ch
    }

    pub fn diverged(&self) -> bool {
        match &self.lock().decider {
            Decider::Replay { script, pos, diverged } => *diverged || *pos < script.len(),
            _ => false,
        }
    }

    pub fn dfs_trail(&self) -> Vec<(usize, usize)> {
        match &self.lock().decider {
            Decider::Dfs { trail, .. } => trail.clone(),
            _ => vec![],
        }
    }

    // ---- puppets -------------------------------------------------------------------------------

    pub fn add_puppet(&self, mode: PMode, late: bool) -> usize {
        let mut g = self.lock();
        g.pups.push(PupDef { mode, late, ninst: 0 });
        g.pups.len()
    }

    /// returns (instance index in `insts`, name)
    pub fn new_inst(&self, pup: usize) -> (usize, String) {
        let mut g = self.lock();
        g.pups[pup - 1].ninst += 1;
        let inst = g.pups[pup - 1].ninst;
        let name = format!("U{pup}#{inst}");
        g.insts.push(InstSt { pup, inst, name: name.clone(), ..Default::default() });
        (g.insts.len() - 1, name)
    }

    pub fn with_inst<R>(&self, ix: usize, f: impl FnOnce(&mut InstSt) -> R) -> R {
        f(&mut self.lock().insts[ix])
    }

    pub fn pup_mode(&self, pup: usize) -> (PMode, bool) {
        let g = self.lock();
        (g.pups[pup - 1].mode, g.pups[pup - 1].late)
    }

    // ---- sinks ---------------------------------------------------------------------------------

    pub fn with_sink<R>(&self, k: usize, f: impl FnOnce(&mut SinkSt) -> R) -> R {
        f(&mut self.lock().sinks[k - 1])
    }
}
