//! Environment bookkeeping shared by all harness components: the observable log (`obs`), the script of
//! choices, the decision provider (replay / dfs / rand), and the conformance state of every probe sink
//! and puppet instance.  Mirrors the environment process of spec/Callbag.tla (DESIGN §3.2).

use rand::{rngs::StdRng, Rng, SeedableRng};
use serde_json::{json, Value};
use std::{
    error::Error,
    fmt,
    sync::{Arc, Mutex, MutexGuard},
};

#[derive(Clone, Debug, Default)]
pub struct Cfg {
    pub max_data: usize,
    pub max_top: usize,
    pub max_pull: usize,
    pub sink_err: bool,
    pub allow_fail: bool,
    pub c14: bool,
    pub burst: bool,
    pub reentrant: bool,
    pub passive: bool,
    pub max_react: usize,
    pub cross: bool,
    pub nsinks: usize,
}

#[derive(Clone, Copy, Debug, PartialEq, Eq)]
pub enum PMode {
    Push,
    Pull,
    Any,
}

#[derive(Debug)]
pub struct PupDef {
    pub mode: PMode,
    pub late: bool,
    pub ninst: usize,
}

#[derive(Debug, Default)]
pub struct InstSt {
    pub pup: usize,
    pub inst: usize,
    pub name: String,
    pub greeted: bool,
    pub pending: bool,
    pub ended: bool,
    pub stopped: bool,
    pub sent: usize,
    pub deferred: usize,
}

impl InstSt {
    pub fn live(&self) -> bool {
        self.greeted && !self.ended && !self.stopped
    }
}

#[derive(Debug, Default)]
pub struct SinkSt {
    pub attached: bool,
    pub greeted: bool,
    pub ended: bool,
    pub disposed: bool,
    pub pulls: usize,
    pub credit: usize,
    /// deliveries to this sink in progress
    pub busy: usize,
}

impl SinkSt {
    pub fn live(&self) -> bool {
        self.attached && self.greeted && !self.ended && !self.disposed
    }
}

#[derive(Debug, Default)]
pub struct TaskSt {
    pub armed: bool,
    pub deadline: u64,
    pub done: bool,
}

pub enum Decider {
    /// follow a script of [kind, comp, choice]; fall back to the first enabled option on divergence
    Replay { script: Vec<(String, String, String)>, pos: usize, diverged: bool },
    /// stateless DFS by re-execution: follow `prefix` (option indices), then take option 0
    Dfs { prefix: Vec<usize>, pos: usize, trail: Vec<(usize, usize)> },
    Rand { rng: StdRng, stop_w: u32 },
}

impl Decider {
    pub fn rand(seed: u64) -> Decider {
        Decider::Rand { rng: StdRng::seed_from_u64(seed), stop_w: 1 }
    }
}

pub struct Inner {
    pub cfg: Cfg,
    pub obs: Vec<Value>,
    pub script: Vec<Value>,
    pub decider: Decider,
    pub sinks: Vec<SinkSt>,
    pub pups: Vec<PupDef>,
    pub insts: Vec<InstSt>,
    pub tasks: Vec<TaskSt>,
    pub now: u64,
    pub errs: Vec<(usize, i64)>,
    pub panicked: bool,
    pub depth: usize,
    pub max_depth: usize,
    /// C13: owner (sink number) of the top-level step in progress, per event / per decision
    pub cur_owner: usize,
    pub obs_own: Vec<usize>,
    /// decisions attributed to the subscription that would make them on its own (C13)
    pub script_proj: Vec<(usize, Value)>,
    /// number of top-level actions performed so far (a cross action nested in a handler counts)
    pub ntop: usize,
    /// component name -> name it would have if its owner were the only subscriber
    pub norm: std::collections::HashMap<String, String>,
    pub norm_cnt: std::collections::HashMap<(usize, String), usize>,
    pub name_owner: std::collections::HashMap<String, usize>,
}

pub type Kicker = Arc<dyn Fn(usize, usize, &str) + Send + Sync>;

pub type TopAction = Arc<dyn Fn(&str, &str) + Send + Sync>;

pub struct Env {
    /// set by the graph builder: makes instance (env index, puppet id) emit one datum now
    pub kicker: Mutex<Option<Kicker>>,
    /// set by the driver: performs a top-level action (act, component)
    pub top_action: Mutex<Option<TopAction>>,
    inner: Mutex<Inner>,
    /// run at the end of a run to break the Arc cycles between harness peers and crate closures
    cleaners: Mutex<Vec<Box<dyn Fn() + Send + Sync>>>,
}

/// Error object with an identity the harness can recognise again (`Arc::ptr_eq` via data pointer).
#[derive(Debug)]
pub struct TagErr(pub i64);
impl fmt::Display for TagErr {
    fn fmt(&self, f: &mut fmt::Formatter<'_>) -> fmt::Result {
        write!(f, "TagErr({})", self.0)
    }
}
impl Error for TagErr {}

pub type DynErr = Arc<dyn Error + Send + Sync + 'static>;

fn err_addr(e: &DynErr) -> usize {
    Arc::as_ptr(e) as *const () as usize
}

/// Emits the matching return event when dropped (also during unwinding).
pub struct CallGuard<'a> {
    env: &'a Env,
    th: usize,
}

impl Drop for CallGuard<'_> {
    fn drop(&mut self) {
        let mut g = self.env.lock();
        g.depth = g.depth.saturating_sub(1);
        let th = self.th;
        let o = g.cur_owner;
        g.obs_own.push(o);
        g.obs.push(json!({"k":"r","th":th,"fr":"","to":"","t":"","v":0}));
    }
}

thread_local! {
    pub static THREAD_ID: std::cell::Cell<usize> = const { std::cell::Cell::new(0) };
}

pub fn cur_thread() -> usize {
    THREAD_ID.with(|t| t.get())
}

impl Env {
    pub fn new(cfg: Cfg, decider: Decider) -> Arc<Env> {
        let mut sinks = Vec::new();
        for _ in 0..cfg.nsinks {
            sinks.push(SinkSt::default());
        }
        Arc::new(Env {
            kicker: Mutex::new(None),
            top_action: Mutex::new(None),
            inner: Mutex::new(Inner {
                cfg,
                obs: vec![],
                script: vec![],
                decider,
                sinks,
                pups: vec![],
                insts: vec![],
                tasks: vec![],
                now: 0,
                errs: vec![],
                panicked: false,
                depth: 0,
                max_depth: 0,
                cur_owner: 0,
                obs_own: vec![],
                script_proj: vec![],
                ntop: 0,
                norm: Default::default(),
                norm_cnt: Default::default(),
                name_owner: Default::default(),
            }),
            cleaners: Mutex::new(vec![]),
        })
    }

    pub fn on_cleanup(&self, f: Box<dyn Fn() + Send + Sync>) {
        self.cleaners.lock().unwrap_or_else(|e| e.into_inner()).push(f);
    }

    /// drop everything big and break reference cycles (a run's closures are otherwise never freed)
    pub fn cleanup(&self) {
        *self.kicker.lock().unwrap_or_else(|e| e.into_inner()) = None;
        *self.top_action.lock().unwrap_or_else(|e| e.into_inner()) = None;
        let cl: Vec<_> = std::mem::take(&mut *self.cleaners.lock().unwrap_or_else(|e| e.into_inner()));
        for f in cl.iter() {
            f();
        }
        let mut g = self.lock();
        g.obs = vec![];
        g.script = vec![];
        g.obs_own = vec![];
        g.script_proj = vec![];
        g.norm.clear();
        g.name_owner.clear();
        g.decider = Decider::Dfs { prefix: vec![], pos: 0, trail: vec![] };
    }

    pub fn lock(&self) -> MutexGuard<'_, Inner> {
        self.inner.lock().unwrap_or_else(|e| e.into_inner())
    }

    pub fn cfg(&self) -> Cfg {
        self.lock().cfg.clone()
    }

    // ---- logging -------------------------------------------------------------------------------

    pub fn call(&self, fr: &str, to: &str, t: &str, v: Value) -> CallGuard<'_> {
        let th = cur_thread();
        let mut g = self.lock();
        g.depth += 1;
        if g.depth > g.max_depth {
            g.max_depth = g.depth;
        }
        let o = g.cur_owner;
        g.obs_own.push(o);
        g.obs.push(json!({"k":"c","th":th,"fr":fr,"to":to,"t":t,"v":v}));
        CallGuard { env: self, th }
    }

    pub fn event(&self, k: &str, to: &str, t: &str, v: Value) {
        let th = cur_thread();
        let mut g = self.lock();
        let o = g.cur_owner;
        g.obs_own.push(o);
        g.obs.push(json!({"k":k,"th":th,"fr":"","to":to,"t":t,"v":v}));
    }

    pub fn new_err(&self, id: i64) -> DynErr {
        let e: DynErr = Arc::new(TagErr(id));
        self.lock().errs.push((err_addr(&e), id));
        e
    }

    /// identity of an error object seen at the boundary: registered id, 700/701 for interval's
    /// NurseErr, -1 for an object the harness has never handed out
    pub fn err_id(&self, e: &DynErr) -> i64 {
        let a = err_addr(e);
        for (p, id) in self.lock().errs.iter() {
            if *p == a {
                return *id;
            }
        }
        if let Some(ne) = e.downcast_ref::<async_nursery::NurseErr>() {
            return match ne {
                async_nursery::NurseErr::Spawn => 700,
                async_nursery::NurseErr::Closed => 701,
            };
        }
        -1
    }

    // ---- decisions -----------------------------------------------------------------------------

    pub fn decide(&self, kind: &str, comp: &str, opts: &[&str]) -> String {
        assert!(!opts.is_empty());
        let mut g = self.lock();
        let idx = match &mut g.decider {
            Decider::Replay { script, pos, diverged } => {
                let mut idx = 0;
                if !*diverged {
                    if let Some((k, c, ch)) = script.get(*pos) {
                        let want = if kind == "top" && ch != "stop" { format!("{ch} {c}") } else { ch.clone() };
                        if k == kind && (kind == "top" || c == comp) {
                            if let Some(i) = opts.iter().position(|o| *o == want) {
                                idx = i;
                                *pos += 1;
                            } else {
                                *diverged = true;
                            }
                        } else {
                            *diverged = true;
                        }
                    } else {
                        *diverged = true;
                    }
                }
                idx
            },
            Decider::Dfs { prefix, pos, trail } => {
                let idx = if *pos < prefix.len() { prefix[*pos].min(opts.len() - 1) } else { 0 };
                *pos += 1;
                trail.push((idx, opts.len()));
                idx
            },
            Decider::Rand { rng, stop_w } => {
                if kind == "top" && opts.len() > 1 {
                    // "stop" is option 0: give it weight stop_w against 4 for each action
                    let total = *stop_w + 4 * (opts.len() as u32 - 1);
                    let r = rng.gen_range(0..total);
                    if r < *stop_w {
                        0
                    } else {
                        1 + ((r - *stop_w) / 4) as usize
                    }
                } else {
                    rng.gen_range(0..opts.len())
                }
            },
        };
        let ch = opts[idx].to_string();
        let o = g.cur_owner;
        let entry = if kind == "top" {
            match ch.split_once(' ') {
                Some((act, c)) => json!(["top", c, act]),
                None => json!(["top", "", ch]),
            }
        } else {
            json!([kind, comp, ch])
        };
        g.script.push(entry.clone());
        g.script_proj.push((o, entry));
        ch
    }

    pub fn diverged(&self) -> bool {
        match &self.lock().decider {
            Decider::Replay { script, pos, diverged } => *diverged || *pos < script.len(),
            _ => false,
        }
    }

    pub fn dfs_trail(&self) -> Vec<(usize, usize)> {
        match &self.lock().decider {
            Decider::Dfs { trail, .. } => trail.clone(),
            _ => vec![],
        }
    }

    /// registers a freshly created component name (prefix + global number) for the current owner and
    /// returns nothing; the normalised name is prefix + rank among the owner's components of that prefix
    pub fn register_name(&self, prefix: &str, name: &str) {
        let mut g = self.lock();
        let o = g.cur_owner;
        let c = g.norm_cnt.entry((o, prefix.to_string())).or_insert(0);
        *c += 1;
        let n = format!("{prefix}{}", *c);
        g.norm.insert(name.to_string(), n);
        g.name_owner.insert(name.to_string(), o);
    }

    pub fn set_owner(&self, o: usize) {
        self.lock().cur_owner = o;
    }

    pub fn owner_of_name(&self, name: &str) -> usize {
        let g = self.lock();
        if let Some(k) = name.strip_prefix('K') {
            return k.parse().unwrap_or(0);
        }
        g.name_owner.get(name).copied().unwrap_or(0)
    }

    // ---- puppets -------------------------------------------------------------------------------

    pub fn add_puppet(&self, mode: PMode, late: bool) -> usize {
        let mut g = self.lock();
        g.pups.push(PupDef { mode, late, ninst: 0 });
        g.pups.len()
    }

    /// returns (instance index in `insts`, name)
    pub fn new_inst(&self, pup: usize) -> (usize, String) {
        let mut g = self.lock();
        g.pups[pup - 1].ninst += 1;
        let inst = g.pups[pup - 1].ninst;
        let name = format!("U{pup}#{inst}");
        g.insts.push(InstSt { pup, inst, name: name.clone(), ..Default::default() });
        let ix = g.insts.len() - 1;
        drop(g);
        self.register_name(&format!("U{pup}#"), &name);
        (ix, name)
    }

    pub fn with_inst<R>(&self, ix: usize, f: impl FnOnce(&mut InstSt) -> R) -> R {
        f(&mut self.lock().insts[ix])
    }

    pub fn pup_mode(&self, pup: usize) -> (PMode, bool) {
        let g = self.lock();
        (g.pups[pup - 1].mode, g.pups[pup - 1].late)
    }

    // ---- sinks ---------------------------------------------------------------------------------

    pub fn with_sink<R>(&self, k: usize, f: impl FnOnce(&mut SinkSt) -> R) -> R {
        f(&mut self.lock().sinks[k - 1])
    }
}
