//! Mock `Nurse + Timer` with a virtual clock for `interval` (DESIGN §3.2).  `nurse_obj` stores the
//! future (or fails as decided by the script) and never polls it inside the call; the first poll is
//! done by the driver when the spawning top-level step has returned; `sleep(d)` arms a virtual timer
//! when first polled; `fire` marks the sleep of one task elapsed and polls that task once.

use crate::env::Env;
use async_executors::Timer;
use async_nursery::{Nurse, NurseErr};
use futures::{
    future::BoxFuture,
    task::{noop_waker, FutureObj},
    Future,
};
use serde_json::json;
use std::{
    pin::Pin,
    sync::{Arc, Mutex},
    task::{Context, Poll},
    time::Duration,
};

struct Task {
    fut: Option<Pin<Box<dyn Future<Output = ()> + Send>>>,
    started: bool,
    armed: bool,
    deadline: u64,
    elapsed: bool,
}

struct NurseInner {
    tasks: Vec<Task>,
    current: Option<usize>,
    now: u64,
}

#[derive(Clone)]
pub struct MockNurse {
    env: Arc<Env>,
    inner: Arc<Mutex<NurseInner>>,
    allow_fail: bool,
}

impl std::fmt::Debug for MockNurse {
    fn fmt(&self, f: &mut std::fmt::Formatter<'_>) -> std::fmt::Result {
        write!(f, "MockNurse")
    }
}

impl MockNurse {
    pub fn new(env: &Arc<Env>) -> MockNurse {
        let n = MockNurse {
            env: Arc::clone(env),
            inner: Arc::new(Mutex::new(NurseInner { tasks: vec![], current: None, now: 0 })),
            allow_fail: env.cfg().allow_fail,
        };
        let w = Arc::downgrade(&n.inner);
        env.on_cleanup(Box::new(move || {
            if let Some(i) = w.upgrade() {
                let t = std::mem::take(&mut i.lock().unwrap_or_else(|e| e.into_inner()).tasks);
                drop(t);
            }
        }));
        n
    }

    fn lock(&self) -> std::sync::MutexGuard<'_, NurseInner> {
        self.inner.lock().unwrap_or_else(|e| e.into_inner())
    }

    fn poll_task(&self, t: usize) {
        let fut = {
            let mut g = self.lock();
            g.current = Some(t);
            g.tasks[t].fut.take()
        };
        if let Some(mut fut) = fut {
            let w = noop_waker();
            let mut cx = Context::from_waker(&w);
            let r = fut.as_mut().poll(&mut cx);
            let mut g = self.lock();
            g.current = None;
            if r.is_pending() {
                g.tasks[t].fut = Some(fut);
            } else {
                g.tasks[t].armed = false;
                drop(g);
                self.env.event("taskdone", &format!("T{}", t + 1), "", json!(0));
            }
        } else {
            self.lock().current = None;
        }
    }

    /// first poll of every task spawned during the step that just returned
    pub fn start_new(&self) {
        loop {
            let t = {
                let mut g = self.lock();
                match g.tasks.iter().position(|t| !t.started && t.fut.is_some()) {
                    Some(t) => {
                        g.tasks[t].started = true;
                        t
                    },
                    None => break,
                }
            };
            self.poll_task(t);
        }
    }

    /// tasks whose timer may fire next (armed, minimal deadline), 1-based
    pub fn fireable(&self) -> Vec<usize> {
        let g = self.lock();
        let min = g.tasks.iter().filter(|t| t.armed).map(|t| t.deadline).min();
        match min {
            None => vec![],
            Some(m) => g
                .tasks
                .iter()
                .enumerate()
                .filter(|(_, t)| t.armed && t.deadline == m)
                .map(|(i, _)| i + 1)
                .collect(),
        }
    }

    pub fn fire(&self, t1: usize) {
        let t = t1 - 1;
        {
            let mut g = self.lock();
            g.now = g.tasks[t].deadline;
            g.tasks[t].armed = false;
            g.tasks[t].elapsed = true;
        }
        self.poll_task(t);
    }
}

impl Nurse<()> for MockNurse {
    fn nurse_obj(&self, fut: FutureObj<'static, ()>) -> Result<(), NurseErr> {
        let n = self.lock().tasks.len() + 1;
        let name = format!("T{n}");
        let opts: Vec<&str> = if self.allow_fail { vec!["ok", "Spawn", "Closed"] } else { vec!["ok"] };
        self.env.register_name("T", &name);
        let c = self.env.decide("spawn", &name, &opts);
        self.env.event("spawn", &name, &c, json!(0));
        let mut g = self.lock();
        match c.as_str() {
            "ok" => {
                g.tasks.push(Task {
                    fut: Some(Box::pin(fut)),
                    started: false,
                    armed: false,
                    deadline: 0,
                    elapsed: false,
                });
                Ok(())
            },
            "Spawn" => {
                g.tasks.push(Task { fut: None, started: true, armed: false, deadline: 0, elapsed: false });
                Err(NurseErr::Spawn)
            },
            _ => {
                g.tasks.push(Task { fut: None, started: true, armed: false, deadline: 0, elapsed: false });
                Err(NurseErr::Closed)
            },
        }
    }
}

struct Sleep {
    nurse: MockNurse,
    dur: u64,
    task: Option<usize>,
}

impl Future for Sleep {
    type Output = ();
    fn poll(mut self: Pin<&mut Self>, _cx: &mut Context<'_>) -> Poll<()> {
        let nurse = self.nurse.clone();
        match self.task {
            None => {
                let (t, name) = {
                    let mut g = nurse.lock();
                    let t = g.current.expect("sleep polled outside a mock task");
                    g.tasks[t].armed = true;
                    g.tasks[t].elapsed = false;
                    g.tasks[t].deadline = g.now + self.dur;
                    (t, format!("T{}", t + 1))
                };
                self.task = Some(t);
                nurse.env.event("sleep", &name, "", json!(self.dur as i64));
                Poll::Pending
            },
            Some(t) => {
                let mut g = nurse.lock();
                if g.tasks[t].elapsed {
                    g.tasks[t].elapsed = false;
                    Poll::Ready(())
                } else {
                    Poll::Pending
                }
            },
        }
    }
}

impl Timer for MockNurse {
    fn sleep(&self, dur: Duration) -> BoxFuture<'static, ()> {
        Box::pin(Sleep { nurse: self.clone(), dur: dur.as_millis() as u64, task: None })
    }
}
