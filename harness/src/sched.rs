//! Deterministic thread scheduler for the C18/C19 scenarios (DESIGN §5.1 `threads`).
//!
//! Real OS threads, one per entry of cfg.thr, deliver a puppet member's data and completion into the
//! real operator graph.  With `--cfg callbag_verif` the crate calls `verif::yield_point` before every
//! shared-state access of merge / combine / take; the hook parks the calling thread until the
//! controller hands it the turn, so exactly one thread runs at a time and a schedule (sequence of
//! thread ids, one per yield) determines the execution.  Without the cfg the hook never fires and each
//! thread simply runs to completion when first scheduled (coarse interleavings only).

use crate::{
    comps::V,
    env::{Decider, Env, THREAD_ID},
    graph::{build, cfg_from},
};
use rand::{rngs::StdRng, Rng, SeedableRng};
use serde_json::{json, Value};
use std::{
    panic::{catch_unwind, AssertUnwindSafe},
    sync::{Arc, Condvar, Mutex},
};

struct State {
    n: usize,
    running: Option<usize>,
    parked: Vec<bool>,
    finished: Vec<bool>,
    turn: Option<usize>,
}

pub struct Sched {
    m: Mutex<State>,
    cv: Condvar,
}

static CURRENT: Mutex<Option<Arc<Sched>>> = Mutex::new(None);

fn current() -> Option<Arc<Sched>> {
    CURRENT.lock().unwrap_or_else(|e| e.into_inner()).clone()
}

impl Sched {
    fn park(&self, t: usize) {
        let mut g = self.m.lock().unwrap_or_else(|e| e.into_inner());
        g.parked[t - 1] = true;
        if g.running == Some(t) {
            g.running = None;
        }
        self.cv.notify_all();
        while g.turn != Some(t) {
            g = self.cv.wait(g).unwrap_or_else(|e| e.into_inner());
        }
        g.turn = None;
        g.parked[t - 1] = false;
        g.running = Some(t);
    }

    fn finish(&self, t: usize) {
        let mut g = self.m.lock().unwrap_or_else(|e| e.into_inner());
        g.finished[t - 1] = true;
        g.parked[t - 1] = false;
        if g.running == Some(t) {
            g.running = None;
        }
        self.cv.notify_all();
    }
}

/// the hook installed into the crate: park the calling worker thread
pub fn hook(_label: &'static str) {
    let t = THREAD_ID.with(|x| x.get());
    if t == 0 {
        return;
    }
    if let Some(s) = current() {
        s.park(t);
    }
}

#[cfg(callbag_verif)]
fn install_hook() {
    callbag::verif::set_hook(Some(Arc::new(hook)));
}
#[cfg(not(callbag_verif))]
fn install_hook() {}

pub fn hooks_compiled() -> bool {
    cfg!(callbag_verif)
}

/// how the controller chooses the next thread at step i, given the runnable set and the thread that
/// ran last; returns the choice and whether it was a free choice point (more than one runnable)
pub trait Policy {
    fn choose(&mut self, step: usize, runnable: &[usize], last: Option<usize>) -> usize;
}

/// follow a given schedule; fall back to "continue the last thread, else the lowest id"
struct Follow {
    sched: Vec<usize>,
}
impl Policy for Follow {
    fn choose(&mut self, step: usize, runnable: &[usize], last: Option<usize>) -> usize {
        if let Some(t) = self.sched.get(step) {
            if runnable.contains(t) {
                return *t;
            }
        }
        match last {
            Some(l) if runnable.contains(&l) => l,
            _ => runnable[0],
        }
    }
}

struct Random {
    rng: StdRng,
    /// probability (percent) of switching away from a runnable thread
    switch: u32,
}
impl Policy for Random {
    fn choose(&mut self, _step: usize, runnable: &[usize], last: Option<usize>) -> usize {
        if let Some(l) = last {
            if runnable.contains(&l) && self.rng.gen_range(0..100) >= self.switch {
                return l;
            }
        }
        runnable[self.rng.gen_range(0..runnable.len())]
    }
}

pub struct RunResult {
    pub rec: Value,
    /// per step: (chosen thread, runnable threads, last thread)
    pub steps: Vec<(usize, Vec<usize>, Option<usize>)>,
}

pub fn run_schedule(sc: &Value, id: &Value, policy: &mut dyn Policy) -> RunResult {
    let cfg = cfg_from(sc);
    let thr0 = sc["cfg"]["thr"].as_array().cloned().unwrap_or_default();
    // setup decisions: a member whose thread program starts with "greet" answers the Handshake later
    // (from its own thread), every other member greets inside the subscribing call
    let mut script = vec![];
    let mut pids: Vec<u64> = sc["cfg"]["nodes"]
        .as_array()
        .map(|a| a.iter().filter(|n| n["kind"] == "puppet").map(|n| n["pid"].as_u64().unwrap_or(0)).collect())
        .unwrap_or_default();
    pids.sort();
    for p in pids {
        let later = thr0.iter().any(|t| t["pid"].as_u64() == Some(p) && t["greet"].as_bool().unwrap_or(false));
        script.push(("sub".to_string(), format!("U{p}#1"), if later { "later" } else { "now" }.to_string()));
    }
    let env = Env::new(cfg, Decider::Replay { script, pos: 0, diverged: false });
    let g = build(sc, &env);
    let thr = sc["cfg"]["thr"].as_array().cloned().unwrap_or_default();
    let n = thr.len();
    // sequential setup on the main thread: subscribe and greet (hook is a no-op for thread 0)
    THREAD_ID.with(|x| x.set(0));
    env.event("top", "K1", "attach", json!(0));
    let setup = catch_unwind(AssertUnwindSafe(|| g.attach(1)));
    let mut steps = vec![];
    if setup.is_err() {
        env.event("panic", "", "", json!(0));
    } else {
        let sched = Arc::new(Sched {
            m: Mutex::new(State { n, running: None, parked: vec![false; n], finished: vec![false; n], turn: None }),
            cv: Condvar::new(),
        });
        *CURRENT.lock().unwrap_or_else(|e| e.into_inner()) = Some(Arc::clone(&sched));
        install_hook();
        env.event("top", "", "threads", json!(0));
        let mut handles = vec![];
        for (i, prog) in thr.iter().enumerate() {
            let t = i + 1;
            let pid = prog["pid"].as_u64().unwrap_or(1) as usize;
            let ndata = prog["data"].as_u64().unwrap_or(1) as usize;
            let end = prog["end"].as_str().unwrap_or("T").to_string();
            let greet = prog["greet"].as_bool().unwrap_or(false);
            let env2 = Arc::clone(&env);
            let sched2 = Arc::clone(&sched);
            let pup = Arc::clone(&g.puppets[&pid]);
            // the (first) instance of that puppet
            let ix = {
                let gd = env.lock();
                gd.insts.iter().position(|x| x.pup == pid)
            };
            handles.push(std::thread::spawn(move || {
                THREAD_ID.with(|x| x.set(t));
                sched2.park(t); // "th_start"
                let r = catch_unwind(AssertUnwindSafe(|| {
                    if let Some(ix) = ix {
                        if greet && env2.with_inst(ix, |x| x.pending) {
                            pup.top(ix, "greet");
                        }
                        for _ in 0..ndata {
                            // a conformant member does not begin an emission once it was stopped
                            if !env2.with_inst(ix, |x| x.live()) {
                                break;
                            }
                            pup.top(ix, "emit");
                        }
                        if end != "none" && env2.with_inst(ix, |x| x.live()) {
                            pup.top(ix, if end == "E" { "fail" } else { "end" });
                        }
                    }
                }));
                if r.is_err() {
                    env2.event("panic", "", "", json!(0));
                }
                sched2.finish(t);
            }));
        }
        // controller
        let mut last: Option<usize> = None;
        let mut step = 0usize;
        loop {
            let runnable: Vec<usize> = {
                let mut st = sched.m.lock().unwrap_or_else(|e| e.into_inner());
                // wait until nobody runs and every unfinished thread is parked
                loop {
                    let all_parked = (0..st.n).all(|i| st.finished[i] || st.parked[i]);
                    if st.running.is_none() && st.turn.is_none() && all_parked {
                        break;
                    }
                    st = sched.cv.wait(st).unwrap_or_else(|e| e.into_inner());
                }
                (1..=st.n).filter(|t| !st.finished[t - 1]).collect()
            };
            if runnable.is_empty() {
                break;
            }
            let t = policy.choose(step, &runnable, last);
            steps.push((t, runnable.clone(), last));
            {
                let mut st = sched.m.lock().unwrap_or_else(|e| e.into_inner());
                st.turn = Some(t);
                sched.cv.notify_all();
            }
            last = Some(t);
            step += 1;
            if step > 100_000 {
                eprintln!("scheduler: runaway schedule");
                std::process::exit(2);
            }
        }
        for h in handles {
            let _ = h.join();
        }
        *CURRENT.lock().unwrap_or_else(|e| e.into_inner()) = None;
    }
    let gd = env.lock();
    let rec = json!({
        "id": id,
        "fam": sc["fam"],
        "cfg": sc["cfg"],
        "script": [],
        "sched": steps.iter().map(|s| s.0).collect::<Vec<_>>(),
        "obs": gd.obs,
        "hooks": hooks_compiled(),
    });
    drop(gd);
    drop(g);
    env.cleanup();
    RunResult { rec, steps }
}

/// all schedules with at most `bound` preemptions (a preemption = switching away from the last thread
/// although it is still runnable), by stateless re-execution
fn enumerate(sc: &Value, bound: usize, limit: usize, out: &mut Vec<Value>) {
    // a work item is a schedule prefix; the run continues it with the non-preemptive default policy
    let mut work: Vec<(Vec<usize>, usize)> = vec![(vec![], 0)]; // (prefix, preemptions used in prefix)
    let mut seen = 0usize;
    while let Some((prefix, used)) = work.pop() {
        let mut pol = Follow { sched: prefix.clone() };
        let idv = json!(format!("{}.e{}", id_of(sc), seen));
        let r = run_schedule(sc, &idv, &mut pol);
        seen += 1;
        out.push(r.rec);
        if seen >= limit {
            out.push(json!({"id": sc["id"], "truncated": true}));
            return;
        }
        // branch at every step after the prefix
        for (i, (chosen, runnable, last)) in r.steps.iter().enumerate().skip(prefix.len()) {
            for alt in runnable {
                if alt == chosen {
                    continue;
                }
                let preempt = matches!(last, Some(l) if runnable.contains(l) && alt != l);
                let cost = used + r.steps[prefix.len()..i].iter().filter(|(c, rn, l)| matches!(l, Some(l) if rn.contains(l) && c != l)).count()
                    + if preempt { 1 } else { 0 };
                if cost > bound {
                    continue;
                }
                let mut p: Vec<usize> = r.steps[..i].iter().map(|s| s.0).collect();
                p.push(*alt);
                work.push((p, cost));
            }
        }
    }
}

fn id_of(sc: &Value) -> String {
    match sc["id"].as_str() {
        Some(s) => s.to_string(),
        None => sc["id"].to_string(),
    }
}

pub fn run_threads(sc: &Value) -> Vec<Value> {
    let mut out = vec![];
    if let Some(scheds) = sc["scheds"].as_array() {
        for (i, s) in scheds.iter().enumerate() {
            let v: Vec<usize> = s.as_array().map(|a| a.iter().map(|x| x.as_u64().unwrap_or(0) as usize).collect()).unwrap_or_default();
            let mut pol = Follow { sched: v };
            let idv = json!(format!("{}.s{}", id_of(sc), i));
            out.push(run_schedule(sc, &idv, &mut pol).rec);
        }
    }
    if let Some(e) = sc.get("enumerate") {
        if e.is_object() {
            let bound = e["preempt"].as_u64().unwrap_or(2) as usize;
            let limit = e["limit"].as_u64().unwrap_or(20000) as usize;
            enumerate(sc, bound, limit, &mut out);
        }
    }
    if let Some(r) = sc.get("rand") {
        if r.is_object() {
            let count = r["count"].as_u64().unwrap_or(100);
            let seed = r["seed"].as_u64().unwrap_or(0);
            for i in 0..count {
                let mut pol = Random {
                    rng: StdRng::seed_from_u64(seed.wrapping_mul(7_919).wrapping_add(i)),
                    switch: 10 + ((i % 5) * 15) as u32,
                };
                let idv = json!(format!("{}.r{}", id_of(sc), i));
                out.push(run_schedule(sc, &idv, &mut pol).rec);
            }
        }
    }
    out
}

#[allow(dead_code)]
fn unused(_: V) {}
