//! Thread scheduler for the C18/C19 scenarios (filled in later).
use serde_json::Value;

pub fn run_threads(_sc: &Value) -> Vec<Value> {
    vec![]
}
